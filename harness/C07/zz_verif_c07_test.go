package objectdeployments

// Correspondence harness for property C07 ("one ObjectSet per template, unique increasing
// revision numbers").  Injected by `go test -overlay`, never committed to the repository.
//
// A scenario is a HISTORY: an initial template and a list of operations.  Each operation is
// executed against the REAL controllers built by their exported constructors on top of the
// shared in-memory API (verifstore):
//
//   od   – one pass of the real ObjectDeployment controller (GenericObjectDeploymentController
//          .Reconcile: hashReconciler, objectSetReconciler, newRevisionReconciler,
//          archiveReconciler, status update)
//   os i – one pass of the real ObjectSet controller (GenericObjectSetController.Reconcile,
//          of which revisionReconciler is the first sub-reconciler; the controller persists
//          status itself)
//
// everything else (template edits, changes of spec.revisionHistoryLimit, pause, archive, garbage
// collection, a foreign ObjectSet squatting on the next name, API faults, the create-not-yet-visible
// cache window) is environment.  What the pass's own archiveReconciler archives / garbage collects
// (beyond spec.revisionHistoryLimit) is reported as separate `arch` / `del` steps right after the pass.
// After every operation the harness prints the ObjectSet create requests the controller issued, the
// collision counter, status.templateHash and every ObjectSet with its status.revision, all taken from
// the store (the truth), not from what the controller saw.

import (
	"context"
	"encoding/json"
	"errors"
	"fmt"
	"sort"
	"strconv"
	"strings"
	"testing"

	"github.com/go-logr/logr"
	apierrors "k8s.io/apimachinery/pkg/api/errors"
	apimeta "k8s.io/apimachinery/pkg/api/meta"
	metav1 "k8s.io/apimachinery/pkg/apis/meta/v1"
	"k8s.io/apimachinery/pkg/apis/meta/v1/unstructured"
	"k8s.io/apimachinery/pkg/runtime"
	"k8s.io/apimachinery/pkg/runtime/schema"
	"k8s.io/apimachinery/pkg/types"
	ctrl "sigs.k8s.io/controller-runtime"
	"sigs.k8s.io/controller-runtime/pkg/client"

	corev1alpha1 "package-operator.run/apis/core/v1alpha1"
	"package-operator.run/internal/controllers/objectsets"
	"package-operator.run/internal/utils"
	"package-operator.run/internal/verifkit"
	"package-operator.run/internal/verifstore"
)

// ---------------------------------------------------------------- scenario

type c07Op struct {
	Op    string `json:"op"`    // edit | pause | od | os | arch | del | squat | restart | limit
	K     int    `json:"k"`     // edit: template variant (0 = template without phases); limit: 0 = unset, n+1 = n
	B     bool   `json:"b"`     // pause: value
	I     int    `json:"i"`     // os/arch/del: index into the ObjectSets in creation order; 100+j = j-th newest
	Fault string `json:"fault"` // od: none | fail (create fails before effect) | lose (create takes effect, response lost)
	Hide  string `json:"hide"`  // od: no | list (own unobserved creates missing from List) | both (missing from List and Get)
	SFail bool   `json:"sfail"` // od: the final ObjectDeployment status update fails
	D     int    `json:"d"`     // squat: name offset (collision count + d)
	Owned bool   `json:"owned"` // squat: controller reference points at this deployment
	Arch  bool   `json:"arch"`  // squat: archived
	Spec  int    `json:"spec"`  // squat: template variant of its spec
	Rev   int    `json:"rev"`   // squat: status.revision
	P     int    `json:"p"`     // squat: 0 = no previous, k+1 = spec.previous names the ObjectSet at index k
	// Auto marks an `arch` / `del` step that was not an input: the preceding pass of the real
	// ObjectDeployment controller archived / garbage collected that ObjectSet itself
	// (archiveReconciler, the last sub-reconciler of the pass; it deletes the oldest revisions beyond
	// spec.revisionHistoryLimit whenever it archives something).  The harness reports such writes as
	// separate steps right after the pass; auto steps in an input scenario are dropped and re-derived.
	Auto bool `json:"auto"`
	// AFail marks an `od` step whose archiveReconciler failed (derived like Auto, never an input): with a
	// small spec.revisionHistoryLimit the garbage collection that runs after every single archival deletes
	// revisions the same loop is about to archive, the next Update then answers Conflict / NotFound and the
	// pass ends with that error before the ObjectDeployment status update.  For the hash / objectSet /
	// newRevision part of the pass (what C07 is about) that is one more way the status update can be lost.
	AFail bool `json:"afail"`
}

type c07Scn struct {
	Fl   string  `json:"fl"`   // ns | cl
	Init int     `json:"init"` // initial template variant
	Lim  int     `json:"lim"`  // initial spec.revisionHistoryLimit: 0 = unset (default 10 applies), n+1 = n
	Ops  []c07Op `json:"ops"`
}

// c07Limits: the values of spec.revisionHistoryLimit the histories use (encoded: 0 = unset, n+1 = n):
// unset, 0 ("keep no old revisions"), 1, 2, large.
var c07Limits = []int{0, 1, 2, 3, 1001}

const c07Rel = 100 // os/arch/del index base for "j-th newest ObjectSet"

const (
	c07MaxVariant = 6
	c07MaxCC      = 12
	c07Group      = "package-operator.run"
)

// ---------------------------------------------------------------- client wrapper (cache window)

// c07Client is the ObjectDeployment controller's client.  It is verifstore's client except
// that, while `hide` is set, ObjectSets this deployment created and has not yet observed are
// missing from List (hide=list) or from List and Get (hide=both): the create-not-yet-visible
// window of an informer cache.  Writes always go to the store.
type c07Client struct {
	client.Client
	hide   string
	unseen map[string]bool
}

var errC07Injected = errors.New("verif: injected API failure")

func (c *c07Client) List(ctx context.Context, list client.ObjectList, opts ...client.ListOption) error {
	if err := c.Client.List(ctx, list, opts...); err != nil {
		return err
	}
	if c.hide == "no" || len(c.unseen) == 0 {
		return nil
	}
	items, err := apimeta.ExtractList(list)
	if err != nil {
		return err
	}
	var keep []runtime.Object
	for _, it := range items {
		acc, err := apimeta.Accessor(it)
		if err != nil {
			return err
		}
		if !c.unseen[acc.GetName()] {
			keep = append(keep, it)
		}
	}
	return apimeta.SetList(list, keep)
}

func (c *c07Client) Get(ctx context.Context, key client.ObjectKey, obj client.Object, opts ...client.GetOption) error {
	if c.hide == "both" && c.unseen[key.Name] {
		return apierrors.NewNotFound(schema.GroupResource{Group: c07Group, Resource: "objectsets"}, key.Name)
	}
	return c.Client.Get(ctx, key, obj, opts...)
}

// ---------------------------------------------------------------- world

type c07Set struct {
	serial int
	name   string
}

type c07World struct {
	cluster bool
	scheme  *runtime.Scheme
	store   *verifstore.Store
	cl      *c07Client
	odc     *GenericObjectDeploymentController
	osc     *objectsets.GenericObjectSetController
	odKind  string
	osKind  string
	ns      string
	odUID   types.UID
	order   []c07Set // ObjectSets in creation order
	next    int
	hashes  map[string][2]int // real hash string -> (variant, collision count)
	fault   string
	sfail   bool
	mask    map[string]bool // ObjectSets archived by the current pass, not yet reported as a step
	auto    []c07Auto       // what the last pass's archiveReconciler wrote, in the order it is reported
	extra   map[string]bool // tags derived while executing
	afail   bool            // the last pass's archiveReconciler failed after its garbage collection
	// ObjectSets the current pass's garbage collection removed outright (an archived revision that was
	// torn down by its controller carries no finalizer any more), as they were right before: the pass
	// itself is reported with them still there, the removal as the `del` step right after it.
	ghost map[string]*unstructured.Unstructured
}

type c07Auto struct {
	op   string // arch | del
	name string
}

func c07Scheme() *runtime.Scheme {
	s := runtime.NewScheme()
	if err := corev1alpha1.AddToScheme(s); err != nil {
		panic(err)
	}
	return s
}

func c07Phases(k int) []corev1alpha1.ObjectSetTemplatePhase {
	if k <= 0 {
		return nil
	}
	return []corev1alpha1.ObjectSetTemplatePhase{{Name: "v" + strconv.Itoa(k)}}
}

func c07Variant(phases []interface{}) int {
	if len(phases) == 0 {
		return 0
	}
	m, _ := phases[0].(map[string]interface{})
	n, _ := m["name"].(string)
	k, err := strconv.Atoi(strings.TrimPrefix(n, "v"))
	if err != nil {
		return -1
	}
	return k
}

func (w *c07World) odKey() verifstore.Key {
	return verifstore.Key{Group: c07Group, Kind: w.odKind, Namespace: w.ns, Name: "od"}
}

func (w *c07World) osKey(name string) verifstore.Key {
	return verifstore.Key{Group: c07Group, Kind: w.osKind, Namespace: w.ns, Name: name}
}

func (w *c07World) toUnstructured(obj runtime.Object, kind string) *unstructured.Unstructured {
	m, err := runtime.DefaultUnstructuredConverter.ToUnstructured(obj)
	if err != nil {
		panic(err)
	}
	u := &unstructured.Unstructured{Object: m}
	u.SetAPIVersion(corev1alpha1.GroupVersion.String())
	u.SetKind(kind)
	return u
}

func c07Template(k int) corev1alpha1.ObjectSetTemplate {
	return corev1alpha1.ObjectSetTemplate{
		Metadata: metav1.ObjectMeta{Labels: map[string]string{"app": "c07"}},
		Spec:     corev1alpha1.ObjectSetTemplateSpec{Phases: c07Phases(k)},
	}
}

func (w *c07World) build() {
	c := w.store.Client()
	w.cl.Client = c
	cache := w.store.NewCache()
	if w.cluster {
		w.odc = NewClusterObjectDeploymentController(w.cl, logr.Discard(), w.scheme)
		w.osc = objectsets.NewClusterObjectSetController(c, logr.Discard(), w.scheme, cache, c, nil, w.store.Mapper())
	} else {
		w.odc = NewObjectDeploymentController(w.cl, logr.Discard(), w.scheme)
		w.osc = objectsets.NewObjectSetController(c, logr.Discard(), w.scheme, cache, c, nil, w.store.Mapper())
	}
}

func c07NewWorld(scheme *runtime.Scheme, cluster bool, init, lim int) *c07World {
	w := &c07World{cluster: cluster, scheme: scheme, store: verifstore.New(scheme),
		cl: &c07Client{hide: "no", unseen: map[string]bool{}}, hashes: map[string][2]int{}, extra: map[string]bool{}}
	for _, k := range []string{"ObjectSet", "ObjectSetPhase", "ObjectSlice", "ObjectDeployment"} {
		w.store.RegisterKind(schema.GroupKind{Group: c07Group, Kind: k}, true)
		w.store.RegisterKind(schema.GroupKind{Group: c07Group, Kind: "Cluster" + k}, false)
	}
	w.odKind, w.osKind, w.ns = "ObjectDeployment", "ObjectSet", "ns"
	if cluster {
		w.odKind, w.osKind, w.ns = "ClusterObjectDeployment", "ClusterObjectSet", ""
	}
	spec := corev1alpha1.ObjectDeploymentSpec{
		Selector: metav1.LabelSelector{MatchLabels: map[string]string{"app": "c07"}},
		Template: c07Template(init),
	}
	var u *unstructured.Unstructured
	if cluster {
		u = w.toUnstructured(&corev1alpha1.ClusterObjectDeployment{
			ObjectMeta: metav1.ObjectMeta{Name: "od"}, Spec: corev1alpha1.ClusterObjectDeploymentSpec(spec)}, w.odKind)
	} else {
		u = w.toUnstructured(&corev1alpha1.ObjectDeployment{
			ObjectMeta: metav1.ObjectMeta{Name: "od", Namespace: "ns"}, Spec: spec}, w.odKind)
	}
	w.odUID = w.store.Put(u).GetUID()
	w.build()
	// hash table: what the real hashReconciler computes for every (variant, collision count)
	// the scenarios can reach, taken through the same decode path as the controller's Get.
	// (computed once per flavour: it depends on nothing but the template)
	if cached, ok := c07HashCache[cluster]; ok {
		w.hashes = cached
	}
	fill := len(w.hashes) == 0
	for k := 0; fill && k <= c07MaxVariant; k++ {
		w.setTemplate(k)
		od := w.odc.newObjectDeployment(w.scheme)
		if err := c07Must(w.store.Client().Get(context.Background(),
			client.ObjectKey{Namespace: w.ns, Name: "od"}, od.ClientObject())); err != nil {
			panic(err)
		}
		for cc := 0; cc <= c07MaxCC; cc++ {
			var p *int32
			if cc > 0 {
				v := int32(cc)
				p = &v
			}
			h := utils.ComputeFNV32Hash(od.GetObjectSetTemplate(), p)
			if prev, dup := w.hashes[h]; dup {
				panic(fmt.Sprintf("real FNV collision between %v and (%d,%d): pick other variants", prev, k, cc))
			}
			w.hashes[h] = [2]int{k, cc}
		}
	}
	c07HashCache[cluster] = w.hashes
	w.setTemplate(init)
	w.setLimit(lim)
	w.store.Log = nil
	w.store.InjectFault = func(r *verifstore.Request) verifstore.Fault {
		if r.Verb == "create" && r.Key.Kind == w.osKind {
			switch w.fault {
			case "fail":
				return verifstore.Fault{Before: errC07Injected}
			case "lose":
				return verifstore.Fault{After: errC07Injected}
			}
		}
		if r.Verb == "status" && r.Key.Kind == w.odKind && w.sfail {
			return verifstore.Fault{Before: errC07Injected}
		}
		return verifstore.Fault{}
	}
	return w
}

func c07Must(err error) error { return err }

var c07HashCache = map[bool]map[string][2]int{}

func (w *c07World) setTemplate(k int) {
	tm, err := runtime.DefaultUnstructuredConverter.ToUnstructured(&corev1alpha1.ObjectSetTemplateSpec{Phases: c07Phases(k)})
	if err != nil {
		panic(err)
	}
	w.store.Mutate(w.odKey(), func(u *unstructured.Unstructured) {
		if err := unstructured.SetNestedMap(u.Object, tm, "spec", "template", "spec"); err != nil {
			panic(err)
		}
	})
}

// setLimit is the user setting spec.revisionHistoryLimit (enc 0 = remove the field, n+1 = n).
func (w *c07World) setLimit(enc int) {
	w.store.Mutate(w.odKey(), func(u *unstructured.Unstructured) {
		if enc <= 0 {
			unstructured.RemoveNestedField(u.Object, "spec", "revisionHistoryLimit")
			return
		}
		if err := unstructured.SetNestedField(u.Object, int64(enc-1), "spec", "revisionHistoryLimit"); err != nil {
			panic(err)
		}
	})
}

// limit returns the effective history limit (the archiver's default when the field is unset).
func (w *c07World) limit() int {
	u := w.store.Peek(w.odKey())
	n, ok, _ := unstructured.NestedInt64(u.Object, "spec", "revisionHistoryLimit")
	if !ok {
		return int(defaultRevisionLimit)
	}
	return int(n)
}

func (w *c07World) memberCount() int {
	n := 0
	for _, o := range w.order {
		if w.view(o.name).member {
			n++
		}
	}
	return n
}

// index resolves an os/arch/del index: absolute (creation order) or 100+j = j-th newest.
func (w *c07World) index(i int) int {
	if i >= c07Rel {
		return len(w.order) - 1 - (i - c07Rel) // negative = out of range
	}
	return i
}

func (w *c07World) template() int {
	u := w.store.Peek(w.odKey())
	ph, _, _ := unstructured.NestedSlice(u.Object, "spec", "template", "spec", "phases")
	return c07Variant(ph)
}

func (w *c07World) cc() int {
	u := w.store.Peek(w.odKey())
	n, _, _ := unstructured.NestedInt64(u.Object, "status", "collisionCount")
	return int(n)
}

func (w *c07World) hashID(h string) string {
	if h == "" {
		return "-"
	}
	if v, ok := w.hashes[h]; ok {
		return fmt.Sprintf("%d.%d", v[0], v[1])
	}
	return "?" + verifkit.Esc(h)
}

func (w *c07World) nameID(name string) string {
	return w.hashID(strings.TrimPrefix(name, "od-"))
}

func (w *c07World) hashOf(k, cc int) string {
	for h, v := range w.hashes {
		if v[0] == k && v[1] == cc {
			return h
		}
	}
	return ""
}

type c07View struct {
	exists   bool
	rev      int64
	archived bool
	owned    bool
	member   bool
	spec     int
	prev     []string
}

func (w *c07World) view(name string) c07View {
	u := w.store.Peek(w.osKey(name))
	if u == nil {
		u = w.ghost[name]
	}
	if u == nil {
		return c07View{}
	}
	v := c07View{exists: true}
	v.rev, _, _ = unstructured.NestedInt64(u.Object, "status", "revision")
	ls, _, _ := unstructured.NestedString(u.Object, "spec", "lifecycleState")
	v.archived = ls == string(corev1alpha1.ObjectSetLifecycleStateArchived)
	if ref := metav1.GetControllerOf(u); ref != nil && ref.UID == w.odUID {
		v.owned = true
	}
	v.member = u.GetLabels()["app"] == "c07"
	ph, _, _ := unstructured.NestedSlice(u.Object, "spec", "phases")
	v.spec = c07Variant(ph)
	pr, _, _ := unstructured.NestedSlice(u.Object, "spec", "previous")
	for _, p := range pr {
		m, _ := p.(map[string]interface{})
		n, _ := m["name"].(string)
		v.prev = append(v.prev, w.nameID(n))
	}
	return v
}

func (w *c07World) setsString() string {
	var parts []string
	for _, s := range w.order {
		v := w.view(s.name)
		fl := ""
		if v.archived && !w.mask[s.name] {
			fl += "a"
		}
		if v.owned {
			fl += "o"
		}
		if v.member {
			fl += "m"
		}
		if w.cl.unseen[s.name] {
			fl += "h"
		}
		parts = append(parts, fmt.Sprintf("#%d:%s:s%d:r%d:%s:p%s", s.serial, w.nameID(s.name), v.spec, v.rev, fl, strings.Join(v.prev, "+")))
	}
	return strings.Join(parts, ",")
}

func c07ErrClass(err error) string {
	switch {
	case err == nil:
		return "ok"
	case errors.Is(err, errC07Injected):
		return "e:inj"
	case apierrors.IsNotFound(err):
		return "e:nf"
	case apierrors.IsConflict(err):
		return "e:conflict"
	default:
		return "e:other"
	}
}

// step executes one operation and returns "<result> C[<create requests>]".
func (w *c07World) step(op c07Op) string {
	ctx := context.Background()
	res, reqs := "-", ""
	switch op.Op {
	case "edit":
		if op.K < 0 || op.K > c07MaxVariant {
			break
		}
		if op.K != w.template() {
			// assumption recorded in checks/C07.json: the cache window does not span a template edit
			w.cl.unseen = map[string]bool{}
		}
		w.setTemplate(op.K)
	case "pause":
		w.store.Mutate(w.odKey(), func(u *unstructured.Unstructured) {
			if op.B {
				_ = unstructured.SetNestedField(u.Object, true, "spec", "paused")
			} else {
				unstructured.RemoveNestedField(u.Object, "spec", "paused")
			}
		})
	case "limit":
		if op.K < 0 {
			break
		}
		w.setLimit(op.K)
	case "restart":
		w.build() // controllers keep no state between passes: new instances behave the same
	case "od":
		hide := op.Hide
		if hide != "list" && hide != "both" {
			hide = "no"
			w.cl.unseen = map[string]bool{} // a fresh list observes everything
		}
		w.cl.hide, w.fault, w.sfail = hide, op.Fault, op.SFail
		start := len(w.store.Log)
		existing := w.memberCount()
		_, err := w.odc.Reconcile(ctx, ctrl.Request{NamespacedName: types.NamespacedName{Namespace: w.ns, Name: "od"}})
		w.cl.hide, w.fault, w.sfail = "no", "", false
		res = c07ErrClass(err)
		var rs []string
		for _, r := range w.store.Log[start:] {
			if r.Verb != "create" || r.Key.Kind != w.osKind {
				continue
			}
			ann, _, _ := unstructured.NestedString(r.Body, "metadata", "annotations", ObjectSetHashAnnotation)
			ph, _, _ := unstructured.NestedSlice(r.Body, "spec", "phases")
			pr, _, _ := unstructured.NestedSlice(r.Body, "spec", "previous")
			var prev []string
			for _, p := range pr {
				m, _ := p.(map[string]interface{})
				n, _ := m["name"].(string)
				prev = append(prev, w.nameID(n))
			}
			out := "ok"
			switch r.Err {
			case "":
			case "AlreadyExists":
				out = "exists"
			case "Injected":
				out = "fail"
			case "InjectedAfter":
				out = "lost"
			default:
				out = "err" + r.Err
			}
			rs = append(rs, fmt.Sprintf("%s/%s/s%d/p%s/%s", w.nameID(r.Key.Name), w.hashID(ann), c07Variant(ph), strings.Join(prev, "+"), out))
			if r.Created {
				w.order = append(w.order, c07Set{serial: w.next, name: r.Key.Name})
				w.next++
				w.cl.unseen[r.Key.Name] = true
				if existing > w.limit() {
					w.extra["create-over-limit"] = true // more ObjectSets exist than spec.revisionHistoryLimit
				}
				w.extra[fmt.Sprintf("create-existing:%d", c07Min(existing, 6))] = true
			}
		}
		reqs = strings.Join(rs, ",")
		// what the pass's archiveReconciler wrote (reported as separate `arch` / `del` steps)
		var gc []c07Auto
		for _, r := range w.store.Log[start:] {
			if r.Key.Kind != w.osKind || r.Err != "" {
				continue
			}
			switch r.Verb {
			case "update":
				if r.Before == nil || r.After == nil {
					continue
				}
				b, _, _ := unstructured.NestedString(r.Before.Object, "spec", "lifecycleState")
				a, _, _ := unstructured.NestedString(r.After.Object, "spec", "lifecycleState")
				arch := string(corev1alpha1.ObjectSetLifecycleStateArchived)
				if a == arch && b != arch {
					for _, o := range w.order {
						if o.name == r.Key.Name {
							w.auto = append(w.auto, c07Auto{"arch", o.name})
							w.mask[o.name] = true
						}
					}
				}
			case "delete":
				// garbageCollectRevisions: revisions beyond spec.revisionHistoryLimit, oldest first.  A live
				// ObjectSet that was reconciled by its controller carries a finalizer, so the request only
				// marks it (deletionTimestamp) and the removal is completed by the `del` step reported right
				// after the pass; an archived, torn down one is gone at once (kept as a ghost until that
				// step).  (The same revision is requested again for every ObjectSet the pass archives:
				// reported once.)
				if r.Removed && r.Before != nil {
					w.ghost[r.Key.Name] = r.Before
				}
				dup := false
				for _, g := range gc {
					dup = dup || g.name == r.Key.Name
				}
				if !dup && (w.store.Peek(w.osKey(r.Key.Name)) != nil || w.ghost[r.Key.Name] != nil) {
					gc = append(gc, c07Auto{"del", r.Key.Name})
				}
			}
		}
		w.auto = append(w.auto, gc...)
		if err != nil && !errors.Is(err, errC07Injected) {
			deleted := false
			for _, r := range w.store.Log[start:] {
				if r.Key.Kind != w.osKind {
					continue
				}
				if r.Verb == "delete" && r.Err == "" {
					deleted = true
				}
				if r.Verb == "update" && r.Err != "" && deleted {
					w.afail = true
					res = "e:arch"
				}
			}
		}
	case "os":
		i := w.index(op.I)
		if i < 0 || i >= len(w.order) {
			break
		}
		r, err := w.osc.Reconcile(ctx, ctrl.Request{NamespacedName: types.NamespacedName{Namespace: w.ns, Name: w.order[i].name}})
		switch {
		case err != nil:
			res = "err"
		case r.RequeueAfter > 0:
			res = "rq"
		default:
			res = "ok"
		}
	case "arch":
		i := w.index(op.I)
		if i < 0 || i >= len(w.order) {
			break
		}
		s := w.order[i]
		v := w.view(s.name)
		// environment constraint (mirrors what PKO's own archiveReconciler can do): a member is
		// archived only once it reports a revision and has been observed by the deployment
		if v.member && (v.rev == 0 || w.cl.unseen[s.name]) {
			break
		}
		w.store.Mutate(w.osKey(s.name), func(u *unstructured.Unstructured) {
			_ = unstructured.SetNestedField(u.Object, string(corev1alpha1.ObjectSetLifecycleStateArchived), "spec", "lifecycleState")
		})
	case "del":
		i := w.index(op.I)
		if i < 0 || i >= len(w.order) {
			break
		}
		s := w.order[i]
		v := w.view(s.name)
		if v.member {
			// environment constraint (mirrors garbageCollectRevisions): revisions are deleted only
			// when every ObjectSet reports a revision, and never the one with the highest revision
			ok, higher := true, false
			for _, o := range w.order {
				ov := w.view(o.name)
				if !ov.member {
					continue
				}
				if ov.rev == 0 {
					ok = false
				}
				if ov.rev > v.rev {
					higher = true
				}
			}
			if !ok || !higher {
				break
			}
		}
		w.remove(i)
	case "squat":
		if op.D < 0 || op.Spec < 0 || op.Spec > c07MaxVariant || op.Rev < 0 || op.P < 0 {
			break
		}
		h := w.hashOf(w.template(), w.cc()+op.D)
		if h == "" {
			break
		}
		name := "od-" + h
		if w.store.Peek(w.osKey(name)) != nil {
			break
		}
		os := &corev1alpha1.ObjectSet{ObjectMeta: metav1.ObjectMeta{Name: name, Namespace: w.ns}}
		os.Spec.Phases = c07Phases(op.Spec)
		if op.Arch {
			os.Spec.LifecycleState = corev1alpha1.ObjectSetLifecycleStateArchived
		}
		os.Status.Revision = int64(op.Rev)
		if op.P > 0 && op.P-1 < len(w.order) {
			os.Spec.Previous = []corev1alpha1.PreviousRevisionReference{{Name: w.order[op.P-1].name}}
		}
		uid := types.UID("foreign")
		if op.Owned {
			uid = w.odUID
		}
		t := true
		os.OwnerReferences = []metav1.OwnerReference{{APIVersion: corev1alpha1.GroupVersion.String(), Kind: w.odKind,
			Name: "od", UID: uid, Controller: &t}}
		w.store.Put(w.toUnstructured(os, w.osKind))
		w.order = append(w.order, c07Set{serial: w.next, name: name})
		w.next++
	}
	return res + " C[" + reqs + "]"
}

// remove takes the ObjectSet at index i (creation order) out of the API: finalizers dropped, object gone.
func (w *c07World) remove(i int) {
	s := w.order[i]
	w.store.Mutate(w.osKey(s.name), func(u *unstructured.Unstructured) { u.SetFinalizers(nil) })
	w.store.Remove(w.osKey(s.name))
	w.order = append(w.order[:i:i], w.order[i+1:]...)
	delete(w.cl.unseen, s.name)
	delete(w.ghost, s.name)
}

// c07Exec runs a history and returns the scenario as executed (auto steps re-derived) with its trace
// and the tags derived while executing.
func c07Exec(scheme *runtime.Scheme, s c07Scn) (c07Scn, string, []string) {
	ran := c07Scn{Fl: s.Fl, Init: s.Init, Lim: s.Lim, Ops: []c07Op{}}
	if s.Init < 0 || s.Init > c07MaxVariant || s.Lim < 0 {
		return s, "BAD-SCN", nil
	}
	w := c07NewWorld(scheme, s.Fl == "cl", s.Init, s.Lim)
	var outs []string
	state := func() string {
		u := w.store.Peek(w.odKey())
		th, _, _ := unstructured.NestedString(u.Object, "status", "templateHash")
		return fmt.Sprintf("cc=%d th=%s S[%s]", w.cc(), w.hashID(th), w.setsString())
	}
	for _, op := range s.Ops {
		if op.Auto {
			continue
		}
		op.AFail = false
		ran.Ops = append(ran.Ops, op)
		if w.cc() >= c07MaxCC-2 {
			outs = append(outs, "CC-LIMIT")
			break
		}
		w.mask, w.auto, w.ghost = map[string]bool{}, nil, map[string]*unstructured.Unstructured{}
		w.afail = false
		o := w.step(op)
		if w.afail {
			ran.Ops[len(ran.Ops)-1].AFail = true
			w.extra["archiver-failed-after-gc"] = true
		}
		outs = append(outs, o+" "+state())
		for _, a := range w.auto {
			i := -1
			for j, o := range w.order {
				if o.name == a.name {
					i = j
				}
			}
			if i < 0 || i >= c07Rel {
				outs = append(outs, "AUTO-STEP-LOST "+a.op)
				continue
			}
			switch a.op {
			case "arch":
				delete(w.mask, a.name)
			case "del":
				w.remove(i) // completes what garbageCollectRevisions requested, whatever the environment guard says
				w.extra["gc-by-pass"] = true
			}
			ran.Ops = append(ran.Ops, c07Op{Op: a.op, I: i, Fault: "none", Hide: "no", Auto: true})
			outs = append(outs, "- C[] "+state())
		}
	}
	var extra []string
	for t := range w.extra {
		extra = append(extra, t)
	}
	return ran, strings.Join(outs, ";"), extra
}

// ---------------------------------------------------------------- generators

func c07LimTag(enc int) string {
	switch {
	case enc <= 0:
		return "nil"
	case enc > 10:
		return "big"
	default:
		return strconv.Itoa(enc - 1)
	}
}

func c07Tags(s c07Scn, out string, extra []string) []string {
	tags := map[string]bool{"lim:" + c07LimTag(s.Lim): true}
	for _, t := range extra {
		tags[t] = true
	}
	for _, op := range s.Ops {
		tags["op:"+op.Op] = true
		if op.Auto && op.Op == "arch" {
			tags["archived-by-pass"] = true
		}
		if op.Op == "limit" {
			tags["lim:"+c07LimTag(op.K)] = true
		}
		if op.Op == "od" {
			tags["fault:"+op.Fault] = true
			tags["hide:"+op.Hide] = true
			if op.SFail {
				tags["sfail"] = true
			}
		}
	}
	creates, bumps := 0, 0
	lastCC := 0
	for _, st := range strings.Split(out, ";") {
		for _, tk := range []string{"/ok", "/lost", "/exists", "/fail"} {
			if strings.Contains(st, tk) {
				tags["create"+tk] = true
			}
		}
		if strings.Contains(st, "/ok") || strings.Contains(st, "/lost") {
			creates++
		}
		if i := strings.Index(st, " cc="); i >= 0 {
			rest := st[i+4:]
			if j := strings.Index(rest, " "); j >= 0 {
				if n, err := strconv.Atoi(rest[:j]); err == nil {
					if n > lastCC {
						bumps++
					}
					lastCC = n
				}
			}
		}
		if strings.HasPrefix(st, "e:nf") {
			tags["get-hidden"] = true
		}
		if strings.HasPrefix(st, "rq") {
			tags["os-requeue"] = true
		}
		if strings.HasPrefix(st, "err") {
			tags["os-previous-missing"] = true
		}
	}
	tags[fmt.Sprintf("creates:%d", c07Min(creates, 5))] = true
	tags[fmt.Sprintf("bumps:%d", c07Min(bumps, 4))] = true
	if creates == 0 {
		tags["trivial"] = true
	}
	var l []string
	for t := range tags {
		l = append(l, t)
	}
	sort.Strings(l)
	return l
}

func c07Min(a, b int) int {
	if a < b {
		return a
	}
	return b
}

type c07Rng interface {
	Intn(int) int
}

func c07RandomOp(r c07Rng, nsets int) c07Op {
	op := c07Op{Fault: "none", Hide: "no"}
	switch x := r.Intn(100); {
	case x < 34:
		op.Op = "od"
		switch y := r.Intn(10); {
		case y == 0:
			op.Fault = "fail"
		case y == 1:
			op.Fault = "lose"
		}
		switch y := r.Intn(10); {
		case y < 2:
			op.Hide = "list"
		case y == 2:
			op.Hide = "both"
		}
		op.SFail = r.Intn(12) == 0
	case x < 62:
		op.Op = "os"
		op.I = r.Intn(nsets + 1)
		if r.Intn(3) > 0 && nsets > 0 {
			op.I = nsets - 1
			if r.Intn(2) == 0 {
				op.I = c07Rel // the newest ObjectSet, however many there are
			}
		}
	case x < 78:
		op.Op = "edit"
		op.K = r.Intn(4)
		if r.Intn(8) == 0 {
			op.K = r.Intn(c07MaxVariant + 1)
		}
	case x < 83:
		op.Op = "pause"
		op.B = r.Intn(2) == 0
	case x < 89:
		op.Op = "arch"
		op.I = r.Intn(nsets + 1)
	case x < 94:
		op.Op = "del"
		op.I = r.Intn(nsets + 1)
	case x < 98:
		op.Op = "squat"
		op.D = r.Intn(2)
		op.Owned = r.Intn(2) == 0
		op.Arch = r.Intn(3) == 0
		op.Spec = r.Intn(4)
		op.Rev = r.Intn(4)
		if r.Intn(3) == 0 {
			op.P = 1 + r.Intn(nsets+1)
		}
	case x < 99:
		op.Op = "restart"
	default:
		op.Op = "limit"
		op.K = c07Limits[r.Intn(len(c07Limits))]
	}
	return op
}

func TestVerifC07(t *testing.T) {
	r := verifkit.Open(t, "C07")
	defer r.Close()
	scheme := c07Scheme()
	seen := map[string]bool{}
	run := func(s c07Scn) {
		b, _ := json.Marshal(s)
		if seen[string(b)] {
			return
		}
		seen[string(b)] = true
		ran := s
		var extra []string
		out := verifkit.Guard(func() string {
			var o string
			ran, o, extra = c07Exec(scheme, s)
			return o
		})
		rb, _ := json.Marshal(ran)
		r.Emit(string(rb), out, c07Tags(ran, out, extra)...)
	}
	for _, line := range r.Fixed() {
		var s c07Scn
		if err := json.Unmarshal([]byte(line), &s); err != nil {
			t.Fatalf("bad scenario: %v", err)
		}
		run(s)
	}
	if r.ReplayOnly() {
		return
	}
	od := func(f, h string) c07Op { return c07Op{Op: "od", Fault: f, Hide: h} }
	osop := func(i int) c07Op { return c07Op{Op: "os", I: i, Fault: "none", Hide: "no"} }
	plain := func(o string) c07Op { return c07Op{Op: o, Fault: "none", Hide: "no"} }
	edit := func(k int) c07Op { o := plain("edit"); o.K = k; return o }
	// 1. exhaustive: every sequence over a small alphabet, after a fixed prefix that establishes
	//    revision 1 (so that "previous revisions exist", where the slow-cache branch matters).
	alpha := []c07Op{
		od("none", "no"), od("none", "list"), od("none", "both"), od("lose", "list"), od("fail", "no"),
		osop(0), osop(1), osop(2), edit(1), edit(2), edit(0),
	}
	{
		o := plain("pause")
		o.B = true
		alpha = append(alpha, o)
		o.B = false
		alpha = append(alpha, o)
		a := plain("arch")
		alpha = append(alpha, a)
		d := plain("del")
		alpha = append(alpha, d)
		s := plain("squat")
		s.Spec, s.Owned = 2, true
		alpha = append(alpha, s)
		s.Arch, s.Spec = true, 1
		alpha = append(alpha, s)
	}
	prefixes := [][]c07Op{
		{},
		{od("none", "no"), osop(0), edit(2)},
		{od("none", "no"), osop(0), edit(2), od("none", "no"), osop(1), edit(1)},
		// roll-back A -> B -> A after A's ObjectSet was archived (B took over) ...
		{od("none", "no"), osop(0), edit(2), od("none", "no"), osop(1), plain("arch"), edit(1)},
		// ... and roll-back whose clash was already resolved once (counter bumped, A' created): A -> B -> A -> B
		{od("none", "no"), osop(0), edit(2), od("none", "no"), osop(1), edit(1), od("none", "no"), od("none", "no"), osop(2), edit(2)},
	}
	depth := r.Pick(3, 4)
	var rec func(prefix []c07Op, d int, fl string)
	rec = func(prefix []c07Op, d int, fl string) {
		run(c07Scn{Fl: fl, Init: 1, Ops: append([]c07Op{}, prefix...)})
		if d == 0 {
			return
		}
		for _, a := range alpha {
			rec(append(append([]c07Op{}, prefix...), a), d-1, fl)
		}
	}
	for pi, p := range prefixes {
		d := 3
		if pi == 1 {
			d = depth // the prefix after which the create-not-yet-visible window matters most
		}
		if pi >= 3 {
			d = 2
		}
		rec(p, d, "ns")
	}
	rec(prefixes[1], 2, "cl")
	// 1b. spec.revisionHistoryLimit: for every limit value (unset, 0, 1, 2, large) a chain of n roll-outs
	//     (pass creates the ObjectSet, its controller reports the revision, the template is edited again)
	//     in which nothing is archived or garbage collected - so n ObjectSets exist, more than a small
	//     limit allows, when the next one is created - followed by every sequence of length <= 2 over a
	//     small alphabet (passes with every cache view, the newest ObjectSet's controller, a further edit,
	//     a change of the limit, archival / garbage collection of the oldest revision).  The `dance`
	//     variant lets the real archiveReconciler act after every roll-out (pause the old revision, its
	//     controller reports Paused, the next pass archives it and garbage collects beyond the limit).
	lim := func(enc int) c07Op { o := plain("limit"); o.K = enc; return o }
	rel := func(o string, j int) c07Op { x := plain(o); x.I = c07Rel + j; return x }
	chain := func(n int, dance bool) []c07Op {
		var ops []c07Op
		for j := 0; j < n; j++ {
			ops = append(ops, od("none", "no"), rel("os", 0))
			if dance && j > 0 {
				ops = append(ops, od("none", "no"), rel("os", 1), od("none", "no"))
			}
			ops = append(ops, edit(1+(j+1)%c07MaxVariant))
		}
		return ops
	}
	{
		tail := []c07Op{
			od("none", "no"), od("none", "list"), od("lose", "both"), rel("os", 0), rel("os", 1), edit(6), edit(1),
			lim(1), lim(0), lim(3), plain("arch"), plain("del"),
		}
		for _, enc := range c07Limits {
			for n := 1; n <= r.Pick(4, 6); n++ {
				for _, dance := range []bool{false, true} {
					if dance && n < 2 {
						continue
					}
					fl := "ns"
					if n == 3 {
						fl = "cl"
					}
					base := chain(n, dance)
					run(c07Scn{Fl: fl, Init: 1, Lim: enc, Ops: base})
					d2 := !dance && n <= r.Pick(3, 5)
					for _, a := range tail {
						one := append(append([]c07Op{}, base...), a)
						run(c07Scn{Fl: fl, Init: 1, Lim: enc, Ops: one})
						for _, b := range tail {
							if d2 {
								run(c07Scn{Fl: fl, Init: 1, Lim: enc, Ops: append(append([]c07Op{}, one...), b)})
							}
						}
					}
				}
			}
		}
	}
	// 2. random histories
	n := r.Pick(2500, 30000)
	for i := 0; i < n; i++ {
		s := c07Scn{Fl: "ns", Init: r.Rng.Intn(3)}
		if r.Rng.Intn(5) == 0 {
			s.Fl = "cl"
		}
		if r.Rng.Intn(2) == 0 {
			s.Lim = c07Limits[r.Rng.Intn(len(c07Limits))]
		}
		l := 4 + r.Rng.Intn(r.Pick(28, 60))
		nsets := 0
		pre := r.Rng.Intn(3)
		if pre == 1 {
			// roll-out prelude: 2..6 templates rolled out in a row (roll-backs to earlier variants included:
			// the first pass after one bumps the counter, the second creates), every revision reported, the
			// real archiver acting or not after a roll-out, nothing garbage collected by the environment;
			// passes disturbed now and then, the limit changed now and then.  The random history continues
			// from a deployment with several live revisions.
			m := 2 + r.Rng.Intn(5)
			s.Init = 1 + r.Rng.Intn(3)
			cur := s.Init
			for j := 0; j < m; j++ {
				p := od("none", "no")
				if r.Rng.Intn(6) == 0 {
					p = c07RandomOp(r.Rng, nsets)
					for p.Op != "od" {
						p = c07RandomOp(r.Rng, nsets)
					}
				}
				s.Ops = append(s.Ops, p, od("none", "no"), rel("os", 0))
				if r.Rng.Intn(4) == 0 {
					s.Ops = append(s.Ops, od("none", "no"), rel("os", 1), od("none", "no"))
				}
				if r.Rng.Intn(6) == 0 {
					s.Ops = append(s.Ops, lim(c07Limits[r.Rng.Intn(len(c07Limits))]))
				}
				k := 1 + r.Rng.Intn(4)
				for k == cur {
					k = 1 + r.Rng.Intn(4)
				}
				cur = k
				s.Ops = append(s.Ops, edit(k))
			}
			nsets = c07Min(m, 6)
			if l -= len(s.Ops) / 2; l < 4 { // keep the history's total length (and the run time) in the usual range
				l = 4
			}
		}
		if pre == 0 {
			// roll-back prelude: template A rolled out, edited to B, reverted to A - with A's ObjectSet
			// archived in between or still live, B's ObjectSet with or without its revision number, the
			// passes of the roll-out disturbed or not; the random history continues from there.
			a := 1 + r.Rng.Intn(3)
			b := 1 + (a+r.Rng.Intn(2))%3
			s.Init = a
			pass := func() c07Op {
				o := od("none", "no")
				if r.Rng.Intn(6) == 0 {
					o = c07RandomOp(r.Rng, nsets)
					for o.Op != "od" {
						o = c07RandomOp(r.Rng, nsets)
					}
				}
				return o
			}
			s.Ops = append(s.Ops, pass(), osop(0), edit(b), pass())
			if r.Rng.Intn(8) > 0 {
				s.Ops = append(s.Ops, osop(1))
			}
			if r.Rng.Intn(2) == 0 {
				s.Ops = append(s.Ops, plain("arch"))
			}
			s.Ops = append(s.Ops, edit(a), pass())
			nsets = 2
		}
		for j := 0; j < l; j++ {
			op := c07RandomOp(r.Rng, nsets)
			if op.Op == "od" || op.Op == "squat" {
				nsets++ // upper bound, good enough for picking indices
			}
			if nsets > 6 {
				nsets = 6
			}
			s.Ops = append(s.Ops, op)
		}
		run(s)
	}
}
