package objecttemplate

// Correspondence harness for property C19, stream `tmpl`: the REAL
// updateStatusConditionsFromOwnedObject, copySourceItem and RelaxedJSONPathExpression
// (template_reconciler.go) on arbitrary owned/source objects and items.
// Injected by `go test -overlay`.

import (
	"context"
	"encoding/json"
	"strings"
	"testing"
	"time"

	"k8s.io/apimachinery/pkg/apis/meta/v1/unstructured"

	corev1alpha1 "package-operator.run/apis/core/v1alpha1"
	"package-operator.run/internal/adapters"
	"package-operator.run/internal/verifc19"
	"package-operator.run/internal/verifkit"
)

func c19Name(s string) string {
	if s == "" {
		return "%e"
	}
	return s
}

func c19RunTmpl(s verifc19.Scn) string {
	const d = 10 * time.Second
	switch s.Fn {
	case "updateStatus":
		if s.TGen == nil {
			return "BAD-SCENARIO"
		}
		tmpl := &adapters.GenericObjectTemplate{}
		tmpl.Generation = *s.TGen
		obj := &unstructured.Unstructured{Object: verifc19.DecodeObj(s.Obj)}
		return verifc19.GuardT(d, func() string {
			if err := updateStatusConditionsFromOwnedObject(context.Background(), tmpl, obj); err != nil {
				return "err"
			}
			var ts []string
			for _, c := range *tmpl.GetConditions() {
				ts = append(ts, c19Name(c.Type)+"="+c19Name(string(c.Status)))
			}
			if len(ts) == 0 {
				return "ok -"
			}
			return "ok " + strings.Join(ts, ",")
		})
	case "copySourceItem", "copySourceItemX":
		if s.Key == nil || s.Dest == nil {
			return "BAD-SCENARIO"
		}
		item := corev1alpha1.ObjectTemplateSourceItem{Key: *s.Key, Destination: *s.Dest}
		src := &unstructured.Unstructured{Object: verifc19.DecodeObj(s.Obj)}
		cfg := verifc19.DecodeObj(s.Cfg)
		if cfg == nil {
			cfg = map[string]any{} // Reconcile always passes a fresh non-nil map
		}
		return verifc19.GuardT(d, func() string {
			err := copySourceItem(item, src, cfg)
			if s.Fn == "copySourceItemX" {
				return "nopanic"
			}
			if err != nil {
				return "err"
			}
			return "ok"
		})
	case "relaxedX":
		if s.Key == nil {
			return "BAD-SCENARIO"
		}
		return verifc19.GuardT(d, func() string {
			_, _ = RelaxedJSONPathExpression(*s.Key)
			return "nopanic"
		})
	}
	return "BAD-FN"
}

func TestVerifC19Tmpl(t *testing.T) {
	r := verifkit.Open(t, "C19")
	defer r.Close()
	g := verifc19.G{R: r.Rng}
	seen := map[string]bool{}
	run := func(line string, extra ...string) {
		if seen[line] {
			return
		}
		seen[line] = true
		var s verifc19.Scn
		if err := json.Unmarshal([]byte(line), &s); err != nil {
			t.Fatalf("bad scenario %q: %v", line, err)
		}
		out := c19RunTmpl(s)
		tags := append([]string{s.Fn, s.Fn + ":" + strings.SplitN(out, " ", 2)[0]}, extra...)
		if strings.HasPrefix(out, "ok ") && out != "ok -" {
			tags = append(tags, "copied")
		}
		if strings.HasSuffix(s.Fn, "X") {
			tags = append(tags, "exploration")
		}
		r.Emit(line, out, tags...)
	}
	emit := func(s verifc19.Scn, extra ...string) {
		b, err := json.Marshal(s)
		if err != nil {
			t.Fatal(err)
		}
		run(string(b), extra...)
	}
	for _, l := range r.Fixed() {
		run(l, "corpus")
	}
	if r.ReplayOnly() {
		return
	}

	// ---- updateStatus: exhaustive single-condition table (each of the four asserted fields
	// absent / string / wrong type), x condition observedGeneration x status.observedGeneration.
	fieldVals := []any{"absent", "s", nil, int64(5), []any{}, map[string]any{}}
	for _, ty := range fieldVals {
		for _, stt := range fieldVals {
			for _, re := range fieldVals {
				for _, me := range fieldVals {
					for _, og := range []any{"absent", int64(2), int64(3), nil, "2"} {
						c := map[string]any{}
						set := func(k string, v any, str string) {
							if v == "absent" {
								return
							}
							if v == "s" {
								v = str
							}
							c[k] = v
						}
						set("type", ty, "Available")
						set("status", stt, "True")
						set("reason", re, "R")
						set("message", me, "m")
						if og != "absent" {
							c["observedGeneration"] = og
						}
						o := map[string]any{"metadata": map[string]any{"generation": int64(2)},
							"status": map[string]any{"conditions": []any{c}}}
						emit(verifc19.Scn{Fn: "updateStatus", TGen: verifc19.Ptr(int64(1)), Obj: verifc19.Raw(o)}, "table")
					}
				}
			}
		}
	}
	for _, st := range []any{"absent", nil, "s", int64(1), []any{}, map[string]any{},
		map[string]any{"conditions": nil}, map[string]any{"conditions": "x"}, map[string]any{"conditions": map[string]any{}},
		map[string]any{"conditions": []any{}}, map[string]any{"conditions": []any{nil}}, map[string]any{"conditions": []any{"x"}},
		map[string]any{"observedGeneration": nil}, map[string]any{"observedGeneration": "1"}, map[string]any{"observedGeneration": 1.5},
		map[string]any{"observedGeneration": int64(1), "conditions": []any{"x"}},
		map[string]any{"observedGeneration": int64(2), "conditions": []any{"x"}}} {
		for _, md := range []any{"absent", nil, "m", map[string]any{}, map[string]any{"generation": "2"}, map[string]any{"generation": int64(2)}} {
			o := map[string]any{}
			if st != "absent" {
				o["status"] = st
			}
			if md != "absent" {
				o["metadata"] = md
			}
			emit(verifc19.Scn{Fn: "updateStatus", TGen: verifc19.Ptr(int64(1)), Obj: verifc19.Raw(o)}, "table")
		}
	}
	n := r.Pick(1500, 20000)
	for i := 0; i < n; i++ {
		mal := 0.05
		tag := "valid-ish"
		switch i % 3 {
		case 0:
			mal = 0
			tag = "valid"
		case 2:
			mal = 0.4
			tag = "malformed"
		}
		var o any = g.Object(mal)
		if i%50 == 49 {
			o = g.JSON(4)
			tag = "arbitrary"
		}
		emit(verifc19.Scn{Fn: "updateStatus", TGen: verifc19.Ptr(int64(g.R.Intn(4))), Obj: verifc19.Raw(o)}, tag)
	}

	// ---- copySourceItem, precise part: keys of the grammar [{][.]seg(.seg)*[}] with seg in [a-z]+
	segs := []string{"a", "b", "c", "data", "status"}
	mkKey := func() string {
		k := g.R.Intn(3) + 1
		var p []string
		for j := 0; j < k; j++ {
			p = append(p, segs[g.R.Intn(3)])
		}
		key := strings.Join(p, ".")
		if g.P(0.5) {
			key = "." + key
		}
		if g.P(0.4) {
			key = "{" + key + "}"
		}
		return key
	}
	var mkSrc func(depth int) any
	mkSrc = func(depth int) any {
		if depth == 0 || g.P(0.3) {
			return g.Scalar()
		}
		if g.P(0.15) {
			return []any{g.Scalar(), g.Scalar()}
		}
		m := map[string]any{}
		for j := g.R.Intn(3) + 1; j > 0; j-- {
			m[segs[g.R.Intn(3)]] = mkSrc(depth - 1)
		}
		return m
	}
	dests := []string{"", ".", "a", ".a", ".a.b", ".a.b.c", "..a", ".a.", "a.b", ".b", "x", "{.a}", ".a b", "."}
	for _, dest := range dests {
		for _, key := range []string{"a", ".a", "{a}", "{.a}", "a.b", "b", ""} {
			for _, cfg := range []any{map[string]any{}, map[string]any{"a": "x"}, map[string]any{"a": map[string]any{"b": int64(1)}}, map[string]any{"a": nil}} {
				src := map[string]any{"a": map[string]any{"b": "v"}}
				emit(verifc19.Scn{Fn: "copySourceItem", Key: verifc19.Ptr(key), Dest: verifc19.Ptr(dest),
					Obj: verifc19.Raw(src), Cfg: verifc19.Raw(cfg)}, "table")
			}
		}
	}
	for i := 0; i < n; i++ {
		dest := dests[g.R.Intn(len(dests))]
		if g.P(0.6) {
			dest = "." + strings.Join([]string{segs[g.R.Intn(3)], segs[g.R.Intn(3)]}[:g.R.Intn(2)+1], ".")
		}
		var src any = mkSrc(3)
		if _, ok := src.(map[string]any); !ok && g.P(0.8) {
			src = map[string]any{"a": src}
		}
		var cfg any = map[string]any{}
		if g.P(0.5) {
			cfg = mkSrc(2)
		}
		emit(verifc19.Scn{Fn: "copySourceItem", Key: verifc19.Ptr(mkKey()), Dest: verifc19.Ptr(dest),
			Obj: verifc19.Raw(src), Cfg: verifc19.Raw(cfg)}, "random")
	}

	// ---- exploration (no model prediction beyond "does not panic"): arbitrary keys through the
	// regexp + client-go jsonpath, arbitrary destinations.
	alphabet := []string{"a", "b", ".", "..", "{", "}", "[", "]", "*", "?", "(", ")", "@", "'", "\"", " ", "0", "1", ":", ",", "-", "$", "\\", "=", "<", "range", "end", "é"}
	mkGarbage := func() string {
		var b strings.Builder
		for j := g.R.Intn(8); j > 0; j-- {
			b.WriteString(alphabet[g.R.Intn(len(alphabet))])
		}
		return b.String()
	}
	nx := r.Pick(1500, 20000)
	for i := 0; i < nx; i++ {
		key := mkGarbage()
		if g.P(0.3) {
			key = "{" + key + "}"
		}
		dest := mkGarbage()
		if g.P(0.5) {
			dest = "." + dest
		}
		emit(verifc19.Scn{Fn: "copySourceItemX", Key: verifc19.Ptr(key), Dest: verifc19.Ptr(dest),
			Obj: verifc19.Raw(mkSrc(3)), Cfg: verifc19.Raw(map[string]any{})}, "garbage-key")
		emit(verifc19.Scn{Fn: "relaxedX", Key: verifc19.Ptr(key)}, "garbage-key")
	}
}
