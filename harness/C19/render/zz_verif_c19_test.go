package packagerender

// Correspondence harness for property C19, stream `render`: the REAL
// RenderPackageInstance -> RenderObjectSetTemplateSpec (phaseCollector.AddObjects) pipeline and the
// REAL parseConditionMapAnnotation, on objects with arbitrary annotations including
// condition-map garbage.  Injected by `go test -overlay`.

import (
	"bytes"
	"context"
	"encoding/json"
	"fmt"
	"strings"
	"testing"
	"time"

	"k8s.io/apimachinery/pkg/apis/meta/v1/unstructured"

	"package-operator.run/internal/apis/manifests"
	"package-operator.run/internal/packages/internal/packagetypes"
	"package-operator.run/internal/verifc19"
	"package-operator.run/internal/verifkit"
)

const (
	c19Phase = "package-operator.run/phase"
	c19CM    = "package-operator.run/condition-map"
	c19CP    = "package-operator.run/collision-protection"
	c19CEL   = "package-operator.run/condition"
)

func c19Name(s string) string {
	if s == "" {
		return "%e"
	}
	return s
}

func c19Vis(s string) string {
	return strings.NewReplacer(" ", "_", "\t", "~", "\n", "$", "\r", "^").Replace(s)
}

func c19Manifest(phases []string) *manifests.PackageManifest {
	m := &manifests.PackageManifest{}
	m.Name = "pkg"
	for _, p := range phases {
		m.Spec.Phases = append(m.Spec.Phases, manifests.PackageManifestPhase{Name: p})
	}
	return m
}

func c19RunRender(s verifc19.Scn) string {
	const d = 20 * time.Second
	ctx := context.Background()
	switch s.Fn {
	case "render", "renderX":
		var file []byte
		if s.Fn == "render" {
			docs := make([][]byte, len(s.Objs))
			for i, o := range s.Objs {
				docs[i] = []byte(o)
			}
			file = bytes.Join(docs, []byte("\n---\n"))
		} else {
			if s.Blob == nil {
				return "BAD-SCENARIO"
			}
			file = []byte(*s.Blob)
		}
		pkg := &packagetypes.Package{
			Manifest: c19Manifest(s.Phases),
			Files:    packagetypes.Files{"objs.yaml": file},
		}
		return verifc19.GuardT(d, func() string {
			inst, err := RenderPackageInstance(ctx, pkg, packagetypes.PackageRenderContext{}, nil, nil)
			if err != nil {
				if s.Fn == "renderX" {
					return "nopanic"
				}
				return "err"
			}
			spec := RenderObjectSetTemplateSpec(inst)
			if s.Fn == "renderX" {
				return "nopanic"
			}
			var ps []string
			for _, p := range spec.Phases {
				var cs []string
				for _, o := range p.Objects {
					cs = append(cs, fmt.Sprint(len(o.ConditionMappings)))
				}
				ps = append(ps, c19Name(p.Name)+"["+strings.Join(cs, ",")+"]")
			}
			if len(ps) == 0 {
				return "ok -"
			}
			return "ok " + strings.Join(ps, ";")
		})
	case "parseCM":
		if s.CM == nil {
			return "BAD-SCENARIO"
		}
		obj := &unstructured.Unstructured{Object: map[string]any{}}
		obj.SetAnnotations(map[string]string{c19CM: *s.CM})
		return verifc19.GuardT(d, func() string {
			ms, err := parseConditionMapAnnotation(obj)
			if err != nil {
				return "err"
			}
			var out []string
			for _, m := range ms {
				out = append(out, c19Name(c19Vis(m.SourceType))+"=>"+c19Name(c19Vis(m.DestinationType)))
			}
			if len(out) == 0 {
				return "ok -"
			}
			return "ok " + strings.Join(out, "|")
		})
	}
	return "BAD-FN"
}

func TestVerifC19Render(t *testing.T) {
	r := verifkit.Open(t, "C19")
	defer r.Close()
	g := verifc19.G{R: r.Rng}
	seen := map[string]bool{}
	run := func(line string, extra ...string) {
		if seen[line] {
			return
		}
		seen[line] = true
		var s verifc19.Scn
		if err := json.Unmarshal([]byte(line), &s); err != nil {
			t.Fatalf("bad scenario %q: %v", line, err)
		}
		out := c19RunRender(s)
		tags := append([]string{s.Fn, s.Fn + ":" + strings.SplitN(out, " ", 2)[0]}, extra...)
		if strings.HasSuffix(s.Fn, "X") {
			tags = append(tags, "exploration")
		}
		r.Emit(line, out, tags...)
	}
	emit := func(s verifc19.Scn, extra ...string) {
		b, err := json.Marshal(s)
		if err != nil {
			t.Fatal(err)
		}
		run(string(b), extra...)
	}
	for _, l := range r.Fixed() {
		run(l, "corpus")
	}
	if r.ReplayOnly() {
		return
	}

	// ---- parseCM: exhaustive over a small alphabet up to length 5 (quick) / 6 (thorough), then random
	alpha := []string{"A", "=", ">", " ", "\n"}
	maxLen := r.Pick(5, 6)
	var enum func(prefix string, k int)
	enum = func(prefix string, k int) {
		emit(verifc19.Scn{Fn: "parseCM", CM: verifc19.Ptr(prefix)}, "enum")
		if k == 0 {
			return
		}
		for _, a := range alpha {
			enum(prefix+a, k-1)
		}
	}
	enum("", maxLen)
	pieces := []string{"A", "B", "Available", "my.co/Avail", "=>", "=>", "=", ">", " ", "\t", "\n", "\n", "\r", "==>", "=>>"}
	mkCM := func(valid bool) string {
		var b strings.Builder
		if valid {
			for j := g.R.Intn(3) + 1; j > 0; j-- {
				b.WriteString(g.Str("", " ", "  ") + g.Str("Available", "Ready", "A B") + g.Str("", " ") + "=>" + g.Str("", " ") + g.Str("my.co/Avail", "X", "Y") + g.Str("", " "))
				if j > 1 {
					b.WriteString("\n")
				}
			}
			return g.Str("", "\n", " ") + b.String() + g.Str("", "\n", "\n\n")
		}
		for j := g.R.Intn(8); j > 0; j-- {
			b.WriteString(pieces[g.R.Intn(len(pieces))])
		}
		return b.String()
	}
	n := r.Pick(1000, 20000)
	for i := 0; i < n; i++ {
		emit(verifc19.Scn{Fn: "parseCM", CM: verifc19.Ptr(mkCM(i%2 == 0))}, "random")
	}

	// ---- render: objects with arbitrary metadata / annotation shapes
	phasePool := []string{"a", "b", "c", ""}
	var curPhases []string
	mkAnn := func(mal float64) (any, bool) {
		switch {
		case g.P(0.1):
			return nil, false
		case g.P(mal / 2):
			return g.Pick(nil, "x", int64(1), []any{}, []any{"a"}), true
		}
		a := map[string]any{}
		if !g.P(0.15) {
			a[c19Phase] = g.Str("a", "a", "b", "c", "", "zzz")
			if len(curPhases) > 0 && g.P(0.6) {
				a[c19Phase] = curPhases[g.R.Intn(len(curPhases))]
			}
		}
		if g.P(0.5) {
			a[c19CM] = mkCM(!g.P(mal))
		}
		if g.P(0.2) {
			a[c19CP] = g.Str("Prevent", "IfNoController", "None", "bogus")
		}
		if g.P(0.3) {
			a["other"] = "v"
		}
		if g.P(mal / 2) {
			a[g.Str("other2", c19Phase, c19CM)] = g.WrongType()
		}
		return a, true
	}
	mkObj := func(mal float64, i int) any {
		o := map[string]any{"apiVersion": "v1", "kind": "ConfigMap"}
		switch {
		case g.P(mal / 3):
			if g.P(0.5) {
				o["metadata"] = g.Pick(nil, "m", int64(1), []any{})
			}
		default:
			md := map[string]any{"name": fmt.Sprintf("o%d", i)}
			if a, ok := mkAnn(mal); ok {
				md["annotations"] = a
			}
			if g.P(0.2) {
				md["labels"] = g.Pick(map[string]any{"l": "v"}, map[string]any{"l": int64(1)}, "x", nil)
			}
			o["metadata"] = md
		}
		return o
	}
	// small exhaustive table: one object, every annotation shape x a few condition-map values
	for _, cm := range []any{"absent", "", "A=>B", "A=>B\nC=>D", "garbage", "=>B", "A=>", " A => B ", "\n", "A=>B\n", "A=>B\n\nC=>D", int64(1), nil} {
		for _, ph := range []any{"absent", "a", "zzz", "", int64(1)} {
			for _, phases := range [][]string{{"a"}, {"b", "a"}, {}, {""}} {
				a := map[string]any{}
				if cm != "absent" {
					a[c19CM] = cm
				}
				if ph != "absent" {
					a[c19Phase] = ph
				}
				o := map[string]any{"apiVersion": "v1", "kind": "ConfigMap", "metadata": map[string]any{"name": "o", "annotations": a}}
				emit(verifc19.Scn{Fn: "render", Phases: phases, Objs: []json.RawMessage{verifc19.Raw(o)}}, "table")
			}
		}
	}
	nr := r.Pick(1500, 15000)
	for i := 0; i < nr; i++ {
		mal := 0.05
		tag := "valid-ish"
		if i%3 == 2 {
			mal = 0.35
			tag = "malformed"
		}
		g.R.Shuffle(len(phasePool), func(a, b int) { phasePool[a], phasePool[b] = phasePool[b], phasePool[a] })
		phases := append([]string{}, phasePool[:g.R.Intn(4)]...)
		curPhases = phases
		var objs []json.RawMessage
		for j := g.R.Intn(5); j > 0; j-- {
			objs = append(objs, verifc19.Raw(mkObj(mal, j)))
		}
		emit(verifc19.Scn{Fn: "render", Phases: phases, Objs: objs}, tag)
	}

	// ---- exploration: byte-level mutations of a YAML file (incl. CEL annotation), no model prediction
	base := "apiVersion: v1\nkind: ConfigMap\nmetadata:\n  name: a\n  annotations:\n    package-operator.run/phase: a\n" +
		"    package-operator.run/condition-map: |\n      Available => my.co/Avail\n    package-operator.run/condition: \"true\"\n" +
		"data:\n  k: v\n---\napiVersion: apps/v1\nkind: Deployment\nmetadata:\n  name: d\n  annotations: {package-operator.run/phase: b}\nspec: {replicas: 1}\n"
	nx := r.Pick(800, 30000)
	junk := []string{"\n", "---\n", ":", " ", "  ", "- ", "{", "}", "[", "]", "|", ">", "&a ", "*a", "!!binary ", "\"", "'", "#", "\x00", "=>", "null", "~", "? ", "%", "@", "`", "\r", "\xff", "é"}
	for i := 0; i < nx; i++ {
		b := []byte(base)
		for k := g.R.Intn(4) + 1; k > 0; k-- {
			pos := g.R.Intn(len(b) + 1)
			switch g.R.Intn(4) {
			case 0: // delete a span
				end := pos + g.R.Intn(12)
				if end > len(b) {
					end = len(b)
				}
				b = append(append([]byte{}, b[:pos]...), b[end:]...)
			case 1: // insert junk
				j := junk[g.R.Intn(len(junk))]
				b = append(append(append([]byte{}, b[:pos]...), j...), b[pos:]...)
			case 2: // flip a byte
				if pos < len(b) {
					b[pos] ^= byte(1 << uint(g.R.Intn(8)))
				}
			case 3: // duplicate a span
				end := pos + g.R.Intn(30)
				if end > len(b) {
					end = len(b)
				}
				b = append(append(append([]byte{}, b[:end]...), b[pos:end]...), b[end:]...)
			}
			if len(b) == 0 {
				b = []byte("a")
			}
		}
		blob := strings.ToValidUTF8(string(b), "?")
		emit(verifc19.Scn{Fn: "renderX", Phases: []string{"a", "b"}, Blob: verifc19.Ptr(blob)}, "yaml-bytes")
	}
}
