package packagerender

// Correspondence harness for property C19, stream `render`: the REAL
// RenderPackageInstance -> RenderObjectSetTemplateSpec (phaseCollector.AddObjects) pipeline and the
// REAL parseConditionMapAnnotation, on objects with arbitrary annotations including
// condition-map garbage.  Injected by `go test -overlay`.

import (
	"bytes"
	"context"
	"encoding/json"
	"fmt"
	"os"
	"os/exec"
	"runtime/debug"
	"strings"
	"testing"
	"time"

	"k8s.io/apimachinery/pkg/apis/meta/v1/unstructured"

	"package-operator.run/internal/apis/manifests"
	"package-operator.run/internal/packages/internal/packagetypes"
	"package-operator.run/internal/verifc19"
	"package-operator.run/internal/verifkit"
)

const (
	c19Phase = "package-operator.run/phase"
	c19CM    = "package-operator.run/condition-map"
	c19CP    = "package-operator.run/collision-protection"
	c19CEL   = "package-operator.run/condition"
)

func c19Name(s string) string {
	if s == "" {
		return "%e"
	}
	return s
}

func c19Vis(s string) string {
	return strings.NewReplacer(" ", "_", "\t", "~", "\n", "$", "\r", "^").Replace(s)
}

func c19Manifest(phases []string) *manifests.PackageManifest {
	m := &manifests.PackageManifest{}
	m.Name = "pkg"
	for _, p := range phases {
		m.Spec.Phases = append(m.Spec.Phases, manifests.PackageManifestPhase{Name: p})
	}
	return m
}

// ---- tmplX: template files of a package executed by the REAL RenderTemplates, in a CHILD process:
// recursion that is not stopped ends in `fatal error: stack overflow`, which no recover() catches and
// which would take the whole harness down with it.  The parent re-executes its own test binary with
// the scenario in the environment; the child prints one line; no line = the process died.

const c19ChildEnv = "VERIF_C19_CHILD"

// c19Body writes an abstract body as template text: a mark per emit, an include per include.
func c19Body(b []int) string {
	var sb strings.Builder
	for _, i := range b {
		if i < 0 {
			sb.WriteString("#")
		} else {
			fmt.Fprintf(&sb, `{{ include "t%d" . }}`, i)
		}
	}
	return sb.String()
}

// c19TmplModelled: fn "tmpl" — the templates of Prog as real `define`s in a helper file, Entry as a
// template file; executed by the real RenderTemplates; the outcome is the number of marks in the
// output or the error class.
func c19TmplModelled(s verifc19.Scn) string {
	var defs strings.Builder
	for i, b := range s.Prog {
		fmt.Fprintf(&defs, `{{- define "t%d" -}}%s{{- end -}}`+"\n", i, c19Body(b))
	}
	pkg := &packagetypes.Package{Manifest: c19Manifest([]string{"a"}), Files: packagetypes.Files{
		"_defs.gotmpl":   []byte(defs.String()),
		"out.txt.gotmpl": []byte(c19Body(s.Entry)),
	}}
	return verifc19.GuardT(60*time.Second, func() string {
		err := RenderTemplates(context.Background(), pkg, packagetypes.PackageRenderContext{})
		if err != nil {
			return "err"
		}
		return fmt.Sprintf("ok %d", strings.Count(string(pkg.Files["out.txt"]), "#"))
	})
}

func c19TmplRun(s verifc19.Scn) string {
	if s.Fn == "tmpl" {
		return c19TmplModelled(s)
	}
	if s.Blob == nil {
		return "BAD-SCENARIO"
	}
	files := map[string]string{}
	if err := json.Unmarshal([]byte(*s.Blob), &files); err != nil {
		return "BAD-SCENARIO"
	}
	pkg := &packagetypes.Package{Manifest: c19Manifest([]string{"a"}), Files: packagetypes.Files{}}
	for k, v := range files {
		pkg.Files[k] = []byte(v)
	}
	return verifc19.GuardT(40*time.Second, func() string {
		_ = RenderTemplates(context.Background(), pkg, packagetypes.PackageRenderContext{
			Package: manifests.TemplateContextPackage{TemplateContextObjectMeta: manifests.TemplateContextObjectMeta{Name: "p", Namespace: "ns"}},
			Config:  map[string]any{"n": 3},
		})
		return "nopanic"
	})
}

func TestVerifC19RenderChild(t *testing.T) {
	line := os.Getenv(c19ChildEnv)
	if line == "" {
		return
	}
	debug.SetMaxStack(256 << 20) // die after 256 MiB of stack instead of 1 GiB (bounded recursion needs a few MiB)
	var s verifc19.Scn
	if err := json.Unmarshal([]byte(line), &s); err != nil {
		fmt.Println("C19CHILD BAD-SCENARIO")
		return
	}
	fmt.Println("C19CHILD " + c19TmplRun(s))
}

func c19Child(s verifc19.Scn) string {
	b, err := json.Marshal(s)
	if err != nil {
		return "BAD-SCENARIO"
	}
	ctx, cancel := context.WithTimeout(context.Background(), 90*time.Second)
	defer cancel()
	cmd := exec.CommandContext(ctx, os.Args[0], "-test.run=^TestVerifC19RenderChild$", "-test.count=1")
	cmd.Env = append(os.Environ(), c19ChildEnv+"="+string(b), "GOTRACEBACK=single")
	var stdout, stderr bytes.Buffer
	cmd.Stdout, cmd.Stderr = &stdout, &stderr
	_ = cmd.Run()
	if ctx.Err() != nil {
		return "TIMEOUT"
	}
	for _, l := range strings.Split(stdout.String(), "\n") {
		if strings.HasPrefix(l, "C19CHILD ") {
			return strings.TrimPrefix(l, "C19CHILD ")
		}
	}
	why := "process-died"
	for _, l := range strings.Split(stderr.String()+"\n"+stdout.String(), "\n") {
		if strings.HasPrefix(l, "fatal error:") || strings.HasPrefix(l, "panic:") || strings.Contains(l, "stack overflow") {
			why = l
			break
		}
	}
	return "PANIC process-died " + verifkit.Esc(why)
}

func c19RunRender(s verifc19.Scn) string {
	const d = 20 * time.Second
	ctx := context.Background()
	switch s.Fn {
	case "tmplX", "tmpl":
		return c19Child(s)
	case "render", "renderX":
		var file []byte
		if s.Fn == "render" {
			docs := make([][]byte, len(s.Objs))
			for i, o := range s.Objs {
				docs[i] = []byte(o)
			}
			file = bytes.Join(docs, []byte("\n---\n"))
		} else {
			if s.Blob == nil {
				return "BAD-SCENARIO"
			}
			file = []byte(*s.Blob)
		}
		pkg := &packagetypes.Package{
			Manifest: c19Manifest(s.Phases),
			Files:    packagetypes.Files{"objs.yaml": file},
		}
		return verifc19.GuardT(d, func() string {
			inst, err := RenderPackageInstance(ctx, pkg, packagetypes.PackageRenderContext{}, nil, nil)
			if err != nil {
				if s.Fn == "renderX" {
					return "nopanic"
				}
				return "err"
			}
			spec := RenderObjectSetTemplateSpec(inst)
			if s.Fn == "renderX" {
				return "nopanic"
			}
			var ps []string
			for _, p := range spec.Phases {
				var cs []string
				for _, o := range p.Objects {
					cs = append(cs, fmt.Sprint(len(o.ConditionMappings)))
				}
				ps = append(ps, c19Name(p.Name)+"["+strings.Join(cs, ",")+"]")
			}
			if len(ps) == 0 {
				return "ok -"
			}
			return "ok " + strings.Join(ps, ";")
		})
	case "cel", "celX":
		// one CEL expression at one of the three places package content can carry one; the render
		// context (config / images / environment) supplies the run-time values it looks up
		var expr string
		if s.Fn == "cel" {
			expr = s.Expr.Src()
		} else if s.Blob != nil {
			expr = *s.Blob
		}
		if expr == "" || (s.Place != "ann" && s.Place != "cond" && s.Place != "path") {
			return "BAD-SCENARIO"
		}
		m := c19Manifest([]string{"a"})
		ann := map[string]any{c19Phase: "a"}
		switch s.Place {
		case "ann":
			ann[c19CEL] = expr
		case "cond":
			m.Spec.Filters.Conditions = []manifests.PackageManifestNamedCondition{{Name: "c1", Expression: expr}}
			ann[c19CEL] = "cond.c1"
		case "path":
			m.Spec.Filters.Paths = []manifests.PackageManifestPath{{Glob: "objs.yaml", Expression: expr}}
		}
		o1 := map[string]any{"apiVersion": "v1", "kind": "ConfigMap", "metadata": map[string]any{"name": "o1", "annotations": ann}}
		o2 := map[string]any{"apiVersion": "v1", "kind": "ConfigMap", "metadata": map[string]any{"name": "o2", "annotations": map[string]any{c19Phase: "a"}}}
		pkg := &packagetypes.Package{
			Manifest: m,
			Files:    packagetypes.Files{"objs.yaml": bytes.Join([][]byte{verifc19.Raw(o1), verifc19.Raw(o2)}, []byte("\n---\n"))},
		}
		tc := packagetypes.PackageRenderContext{Config: verifc19.DecodeObj(s.Cfg), Images: s.Imgs}
		tc.Package.Name, tc.Package.Namespace, tc.Package.Image = "p", "ns", "quay.io/x/y:v1"
		tc.Environment.Kubernetes.Version = "1.25"
		if s.N != nil && *s.N&1 == 1 {
			tc.Environment.OpenShift = &manifests.PackageEnvironmentOpenShift{Version: "4.14"}
		}
		return verifc19.GuardT(d, func() string {
			inst, err := RenderPackageInstance(ctx, pkg, tc, nil, nil)
			if s.Fn == "celX" {
				return "nopanic"
			}
			if err != nil {
				return "err"
			}
			return fmt.Sprintf("ok %d", len(inst.Objects))
		})
	case "parseCM":
		if s.CM == nil {
			return "BAD-SCENARIO"
		}
		obj := &unstructured.Unstructured{Object: map[string]any{}}
		obj.SetAnnotations(map[string]string{c19CM: *s.CM})
		return verifc19.GuardT(d, func() string {
			ms, err := parseConditionMapAnnotation(obj)
			if err != nil {
				return "err"
			}
			var out []string
			for _, m := range ms {
				out = append(out, c19Name(c19Vis(m.SourceType))+"=>"+c19Name(c19Vis(m.DestinationType)))
			}
			if len(out) == 0 {
				return "ok -"
			}
			return "ok " + strings.Join(out, "|")
		})
	}
	return "BAD-FN"
}

func TestVerifC19Render(t *testing.T) {
	r := verifkit.Open(t, "C19")
	defer r.Close()
	g := verifc19.G{R: r.Rng}
	seen := map[string]bool{}
	run := func(line string, extra ...string) {
		if seen[line] {
			return
		}
		seen[line] = true
		var s verifc19.Scn
		if err := json.Unmarshal([]byte(line), &s); err != nil {
			t.Fatalf("bad scenario %q: %v", line, err)
		}
		out := c19RunRender(s)
		tags := append([]string{s.Fn, s.Fn + ":" + strings.SplitN(out, " ", 2)[0]}, extra...)
		if strings.HasSuffix(s.Fn, "X") {
			tags = append(tags, "exploration")
		}
		r.Emit(line, out, tags...)
	}
	emit := func(s verifc19.Scn, extra ...string) {
		b, err := json.Marshal(s)
		if err != nil {
			t.Fatal(err)
		}
		run(string(b), extra...)
	}
	for _, l := range r.Fixed() {
		run(l, "corpus")
	}
	if r.ReplayOnly() {
		return
	}

	// ---- parseCM: exhaustive over a small alphabet up to length 5 (quick) / 6 (thorough), then random
	alpha := []string{"A", "=", ">", " ", "\n"}
	maxLen := r.Pick(5, 6)
	var enum func(prefix string, k int)
	enum = func(prefix string, k int) {
		emit(verifc19.Scn{Fn: "parseCM", CM: verifc19.Ptr(prefix)}, "enum")
		if k == 0 {
			return
		}
		for _, a := range alpha {
			enum(prefix+a, k-1)
		}
	}
	enum("", maxLen)
	pieces := []string{"A", "B", "Available", "my.co/Avail", "=>", "=>", "=", ">", " ", "\t", "\n", "\n", "\r", "==>", "=>>"}
	mkCM := func(valid bool) string {
		var b strings.Builder
		if valid {
			for j := g.R.Intn(3) + 1; j > 0; j-- {
				b.WriteString(g.Str("", " ", "  ") + g.Str("Available", "Ready", "A B") + g.Str("", " ") + "=>" + g.Str("", " ") + g.Str("my.co/Avail", "X", "Y") + g.Str("", " "))
				if j > 1 {
					b.WriteString("\n")
				}
			}
			return g.Str("", "\n", " ") + b.String() + g.Str("", "\n", "\n\n")
		}
		for j := g.R.Intn(8); j > 0; j-- {
			b.WriteString(pieces[g.R.Intn(len(pieces))])
		}
		return b.String()
	}
	n := r.Pick(1000, 20000)
	for i := 0; i < n; i++ {
		emit(verifc19.Scn{Fn: "parseCM", CM: verifc19.Ptr(mkCM(i%2 == 0))}, "random")
	}

	// ---- tmplX: recursion through `include` / `template` (the guard: at most 1000 nested includes of
	// one name): direct, mutual, with includes of the same name COMPLETING on every level before the
	// recursive one, counted recursion just below / above the bound, tree walks, recursion through
	// computed names
	obj := func(body string) string {
		return "apiVersion: v1\nkind: ConfigMap\nmetadata:\n  name: t\n  annotations:\n    package-operator.run/phase: a\ndata:\n  v: " + body + "\n"
	}
	tmplFamilies := []map[string]string{
		{"t.yaml.gotmpl": `{{- define "r" -}}{{ include "r" . }}{{- end -}}` + obj(`{{ include "r" . | quote }}`)},
		{"t.yaml.gotmpl": `{{- define "a" -}}{{ include "b" . }}{{- end -}}{{- define "b" -}}{{ include "a" . }}{{- end -}}` + obj(`{{ include "a" . | quote }}`)},
		{"_h.gotmpl": `{{- define "r" -}}{{ if .stop }}leaf{{ else }}{{ include "r" (dict "stop" true) }}{{ include "r" . }}{{ end }}{{- end -}}`,
			"t.yaml.gotmpl": obj(`{{ include "r" (dict "stop" false) | quote }}`)},
		{"_h.gotmpl": `{{- define "leaf" -}}x{{- end -}}{{- define "r" -}}{{ include "leaf" . }}{{ include "r" . }}{{ include "leaf" . }}{{- end -}}`,
			"t.yaml.gotmpl": obj(`{{ include "r" . | quote }}`)},
		{"_h.gotmpl": `{{- define "walk" -}}{{ if .node }}{{ include "walk" (dict "node" false "up" .up) }}{{ include "walk" (dict "node" true "up" .up) }}{{ end }}{{- end -}}`,
			"t.yaml.gotmpl": obj(`{{ include "walk" (dict "node" true "up" true) | quote }}`)},
		{"t.yaml.gotmpl": `{{- define "r" -}}{{ template "r" . }}{{- end -}}` + obj(`"{{ template "r" . }}"`)},
		{"t.yaml.gotmpl": `{{- define "a" -}}{{ template "b" . }}{{- end -}}{{- define "b" -}}{{ include "a" . }}{{- end -}}` + obj(`{{ include "a" . | quote }}`)},
		{"_h.gotmpl": `{{- define "r1" -}}{{ include "r2" . }}{{- end -}}{{- define "r2" -}}{{ include (printf "r%d" 1) . }}{{- end -}}`,
			"t.yaml.gotmpl": obj(`{{ include "r1" . | quote }}`)},
		{"a.yaml.gotmpl": `{{- define "ra" -}}{{ include "rb" . }}{{- end -}}` + obj(`"a"`), "b.yaml.gotmpl": `{{- define "rb" -}}{{ include "ra" . }}{{- end -}}` + obj(`{{ include "rb" . | quote }}`)},
	}
	for _, n := range []int{0, 1, 10, 500, 999, 1000, 1001, 1002, 3000} {
		tmplFamilies = append(tmplFamilies, map[string]string{
			"_h.gotmpl":     `{{- define "cnt" -}}{{ if gt (int .) 0 }}{{ include "cnt" (sub (int .) 1) }}{{ end }}x{{- end -}}`,
			"t.yaml.gotmpl": obj(fmt.Sprintf(`{{ include "cnt" %d | len | quote }}`, n)),
		})
		// every level first completes an include of the same name, then recurses
		tmplFamilies = append(tmplFamilies, map[string]string{
			"_h.gotmpl":     `{{- define "cnt" -}}{{ if gt (int .) 0 }}{{ include "cnt" 0 }}{{ include "cnt" (sub (int .) 1) }}{{ end }}x{{- end -}}`,
			"t.yaml.gotmpl": obj(fmt.Sprintf(`{{ include "cnt" %d | len | quote }}`, n)),
		})
	}
	for d := 1; d <= r.Pick(6, 10); d += 2 { // binary tree walks of depth d
		tmplFamilies = append(tmplFamilies, map[string]string{
			"_h.gotmpl":     `{{- define "tree" -}}{{ if gt (int .) 0 }}{{ include "tree" (sub (int .) 1) }}{{ include "tree" (sub (int .) 1) }}{{ end }}.{{- end -}}`,
			"t.yaml.gotmpl": obj(fmt.Sprintf(`{{ include "tree" %d | len | quote }}`, d)),
		})
	}
	// ---- tmpl (modelled): template sets as abstract programs; `Pko.Model.Include` predicts the outcome.
	// Programs whose execution would take more than ~200k steps are skipped (cost estimated by a
	// simulator with the same counter discipline — it only filters, it predicts nothing).
	c19Cost := func(prog [][]int, entry []int) int {
		counts := map[int]int{}
		steps := 0
		var exec func(b []int) bool
		exec = func(b []int) bool {
			for _, i := range b {
				steps++
				if steps > 200000 {
					return false
				}
				if i < 0 {
					continue
				}
				if i >= len(prog) || counts[i] > 1000 {
					return false
				}
				counts[i]++
				ok := exec(prog[i])
				counts[i]--
				if !ok {
					return false
				}
			}
			return true
		}
		exec(entry)
		return steps
	}
	fixedProgs := []struct {
		p [][]int
		e []int
	}{
		{[][]int{{-1, 0}}, []int{0}},                   // self include
		{[][]int{{1}, {0}}, []int{0}},                  // mutual
		{[][]int{{-1}, {0, -1, 0}}, []int{1, 1}},       // leaves only
		{[][]int{{-1}, {0, 1}}, []int{1}},              // completes an include of ANOTHER name, then recurses
		{[][]int{{7}}, []int{0}},                       // unknown template
		{[][]int{{-1}}, []int{0, 0, 0, 3}},             // unknown template after output
		{[][]int{{}, {0, 0, 0}}, []int{1, -1}},         // empty bodies
		{[][]int{{1, -1}, {2, -1}, {-1}}, []int{0, 0}}, // chain
		{[][]int{{1}, {2}, {0}}, []int{0}},             // cycle of three
		{[][]int{{-1, 1}, {-1, 2}, {-1, 1}}, []int{0}}, // cycle entered from outside
	}
	for _, f := range fixedProgs {
		emit(verifc19.Scn{Fn: "tmpl", Prog: f.p, Entry: f.e}, "tmpl-modelled")
	}
	nt := r.Pick(60, 400)
	for i := 0; i < nt; i++ {
		k := 1 + g.R.Intn(4)
		prog := make([][]int, k)
		body := func() []int {
			b := []int{}
			for j := g.R.Intn(4); j > 0; j-- {
				switch {
				case g.P(0.45):
					b = append(b, -1)
				case g.P(0.08):
					b = append(b, k+g.R.Intn(2)) // unknown template
				default:
					b = append(b, g.R.Intn(k))
				}
			}
			return b
		}
		for j := range prog {
			prog[j] = body()
		}
		entry := body()
		if c19Cost(prog, entry) > 200000 {
			continue
		}
		emit(verifc19.Scn{Fn: "tmpl", Prog: prog, Entry: entry}, "tmpl-modelled")
	}
	for _, f := range tmplFamilies {
		b, _ := json.Marshal(f)
		emit(verifc19.Scn{Fn: "tmplX", Blob: verifc19.Ptr(string(b))}, "tmpl-recursion")
	}

	// ---- render: objects with arbitrary metadata / annotation shapes
	phasePool := []string{"a", "b", "c", ""}
	var curPhases []string
	mkAnn := func(mal float64) (any, bool) {
		switch {
		case g.P(0.1):
			return nil, false
		case g.P(mal / 2):
			return g.Pick(nil, "x", int64(1), []any{}, []any{"a"}), true
		}
		a := map[string]any{}
		if !g.P(0.15) {
			a[c19Phase] = g.Str("a", "a", "b", "c", "", "zzz")
			if len(curPhases) > 0 && g.P(0.6) {
				a[c19Phase] = curPhases[g.R.Intn(len(curPhases))]
			}
		}
		if g.P(0.5) {
			a[c19CM] = mkCM(!g.P(mal))
		}
		if g.P(0.2) {
			a[c19CP] = g.Str("Prevent", "IfNoController", "None", "bogus")
		}
		if g.P(0.3) {
			a["other"] = "v"
		}
		if g.P(mal / 2) {
			a[g.Str("other2", c19Phase, c19CM)] = g.WrongType()
		}
		return a, true
	}
	mkObj := func(mal float64, i int) any {
		o := map[string]any{"apiVersion": "v1", "kind": "ConfigMap"}
		switch {
		case g.P(mal / 3):
			if g.P(0.5) {
				o["metadata"] = g.Pick(nil, "m", int64(1), []any{})
			}
		default:
			md := map[string]any{"name": fmt.Sprintf("o%d", i)}
			if a, ok := mkAnn(mal); ok {
				md["annotations"] = a
			}
			if g.P(0.2) {
				md["labels"] = g.Pick(map[string]any{"l": "v"}, map[string]any{"l": int64(1)}, "x", nil)
			}
			o["metadata"] = md
		}
		return o
	}
	// small exhaustive table: one object, every annotation shape x a few condition-map values
	for _, cm := range []any{"absent", "", "A=>B", "A=>B\nC=>D", "garbage", "=>B", "A=>", " A => B ", "\n", "A=>B\n", "A=>B\n\nC=>D", int64(1), nil} {
		for _, ph := range []any{"absent", "a", "zzz", "", int64(1)} {
			for _, phases := range [][]string{{"a"}, {"b", "a"}, {}, {""}} {
				a := map[string]any{}
				if cm != "absent" {
					a[c19CM] = cm
				}
				if ph != "absent" {
					a[c19Phase] = ph
				}
				o := map[string]any{"apiVersion": "v1", "kind": "ConfigMap", "metadata": map[string]any{"name": "o", "annotations": a}}
				emit(verifc19.Scn{Fn: "render", Phases: phases, Objs: []json.RawMessage{verifc19.Raw(o)}}, "table")
			}
		}
	}
	nr := r.Pick(1500, 15000)
	for i := 0; i < nr; i++ {
		mal := 0.05
		tag := "valid-ish"
		if i%3 == 2 {
			mal = 0.35
			tag = "malformed"
		}
		g.R.Shuffle(len(phasePool), func(a, b int) { phasePool[a], phasePool[b] = phasePool[b], phasePool[a] })
		phases := append([]string{}, phasePool[:g.R.Intn(4)]...)
		curPhases = phases
		var objs []json.RawMessage
		for j := g.R.Intn(5); j > 0; j-- {
			objs = append(objs, verifc19.Raw(mkObj(mal, j)))
		}
		emit(verifc19.Scn{Fn: "render", Phases: phases, Objs: objs}, tag)
	}

	// ---- cel: CEL expressions at the three places package content can carry one
	//      (package-operator.run/condition annotation, spec.filters.conditions[].expression,
	//      spec.filters.paths[].expression), of static type bool AND of static type dyn (bare lookups
	//      into config / images / environment, conditionals over them), against run-time values of
	//      every JSON type.
	places := []string{"ann", "cond", "path"}
	celVals := []struct {
		tag string
		v   any
		has bool
	}{
		{"bool-true", true, true}, {"bool-false", false, true}, {"string", "true", true}, {"empty-string", "", true},
		{"int", int64(1), true}, {"float", 1.5, true}, {"null", nil, true}, {"object", map[string]any{"k": true}, true},
		{"empty-object", map[string]any{}, true}, {"list", []any{true}, true}, {"empty-list", []any{}, true}, {"missing", nil, false},
	}
	celShapes := []struct {
		tag string
		e   *verifc19.CelExpr
	}{
		{"lookup", verifc19.Get("config", "k")},
		{"nested-lookup", verifc19.Get("config", "k", "k")},
		{"tern-lit-cond", verifc19.Tern(verifc19.Lit(true), verifc19.Get("config", "k"), verifc19.Lit(false))},
		{"tern-lit-cond-else", verifc19.Tern(verifc19.Lit(false), verifc19.Lit(true), verifc19.Get("config", "k"))},
		{"tern-dyn-cond", verifc19.Tern(verifc19.Get("config", "k"), verifc19.Lit(true), verifc19.Lit(false))},
		{"tern-all-dyn", verifc19.Tern(verifc19.Get("config", "flag"), verifc19.Get("config", "k"), verifc19.Get("config", "k"))},
		{"tern-nested", verifc19.Tern(verifc19.Get("config", "flag"), verifc19.Tern(verifc19.Lit(true), verifc19.Get("config", "k"), verifc19.Lit(true)), verifc19.Lit(false))},
		{"not-lookup", verifc19.Not(verifc19.Get("config", "k"))},
		{"lit", verifc19.Lit(true)},
		{"not-lit", verifc19.Not(verifc19.Lit(true))},
	}
	celTags := func(place string, e *verifc19.CelExpr, extra ...string) []string {
		t := append([]string{"cel-place=" + place}, extra...)
		if e.Dyn() {
			return append(t, "cel-static=dyn")
		}
		return append(t, "cel-static=bool")
	}
	for _, place := range places {
		for _, sh := range celShapes {
			for _, cv := range celVals {
				for _, flag := range []any{true, false} {
					cfg := map[string]any{"flag": flag}
					if cv.has {
						cfg["k"] = cv.v
					}
					emit(verifc19.Scn{Fn: "cel", Place: place, Expr: sh.e, Cfg: verifc19.Raw(cfg), N: verifc19.Ptr(int64(0))},
						celTags(place, sh.e, "table", "cel-value="+cv.tag, "cel-shape="+sh.tag)...)
				}
			}
		}
		// images (always strings), environment (strings / objects / absent), absent config
		for _, e := range []*verifc19.CelExpr{
			verifc19.Get("images", "img"), verifc19.Get("images", "nope"),
			verifc19.Get("environment", "kubernetes", "version"), verifc19.Get("environment", "kubernetes"),
			verifc19.Get("environment", "openShift"), verifc19.Get("environment", "openShift", "version"),
			verifc19.Get("environment", "proxy"), verifc19.Get("package", "image"), verifc19.Get("package", "metadata"),
			verifc19.Tern(verifc19.Lit(true), verifc19.Get("images", "img"), verifc19.Lit(true)),
			verifc19.Tern(verifc19.Get("config", "flag"), verifc19.Get("environment", "openShift"), verifc19.Get("images", "img")),
		} {
			for _, n := range []int64{0, 1} {
				for _, imgs := range []map[string]string{nil, {"img": "quay.io/x/img@sha256:00"}} {
					for _, cfg := range []json.RawMessage{nil, verifc19.Raw(map[string]any{"flag": true}), verifc19.Raw(map[string]any{"flag": false})} {
						emit(verifc19.Scn{Fn: "cel", Place: place, Expr: e, Cfg: cfg, Imgs: imgs, N: verifc19.Ptr(n)},
							celTags(place, e, "table")...)
					}
				}
			}
		}
	}
	keys := []string{"k", "flag", "s", "n", "o", "l", "z", "missing"}
	var mkGet func() *verifc19.CelExpr
	mkGet = func() *verifc19.CelExpr {
		switch g.R.Intn(10) {
		case 0:
			return verifc19.Get("images", g.Str("img", "nope"))
		case 1:
			return verifc19.Get(append([]string{"environment"}, [][]string{{"kubernetes", "version"}, {"openShift"}, {"openShift", "version"}, {"kubernetes"}}[g.R.Intn(4)]...)...)
		case 2:
			return verifc19.Get("config", g.Str("o", "k"), g.Str(keys...))
		}
		return verifc19.Get("config", g.Str(keys...))
	}
	var mkExpr func(depth int) *verifc19.CelExpr
	mkExpr = func(depth int) *verifc19.CelExpr {
		switch x := g.R.Intn(10); {
		case x < 4 || depth <= 0:
			return mkGet()
		case x < 5:
			return verifc19.Lit(g.P(0.5))
		case x < 6:
			return verifc19.Not(mkExpr(depth - 1))
		}
		return verifc19.Tern(mkExpr(depth-1), mkExpr(depth-1), mkExpr(depth-1))
	}
	mkCfg := func() json.RawMessage {
		if g.P(0.05) {
			return nil
		}
		cfg := map[string]any{}
		for _, k := range keys[:7] {
			switch {
			case g.P(0.15):
			case k == "o" && g.P(0.6):
				cfg[k] = map[string]any{"k": g.JSON(1), "flag": g.P(0.5)}
			case g.P(0.45):
				cfg[k] = g.P(0.5)
			default:
				cfg[k] = g.JSON(2)
			}
		}
		return verifc19.Raw(cfg)
	}
	nc := r.Pick(1500, 20000)
	for i := 0; i < nc; i++ {
		place := places[g.R.Intn(3)]
		e := mkExpr(2)
		var imgs map[string]string
		if g.P(0.5) {
			imgs = map[string]string{"img": "quay.io/x/img@sha256:00"}
		}
		emit(verifc19.Scn{Fn: "cel", Place: place, Expr: e, Cfg: mkCfg(), Imgs: imgs, N: verifc19.Ptr(int64(g.R.Intn(2)))},
			celTags(place, e, "random")...)
	}
	// exploration: free-form CEL (operators, macros, indexing, conversions ...) over the same contexts; no model prediction
	celPool := []string{
		"config.k", "config.k == \"x\"", "config.k != true", "has(config.k)", "has(config.o.k)", "config.l[0]", "config.o.k", "config[\"k\"]",
		"size(config.l) > 0", "config.k in [1, 2]", "string(config.k)", "bool(config.s)", "int(config.n) > 0", "config.n + 1", "config.n / 0 == 1",
		"config.s.startsWith(\"a\")", "dyn(config.k)", "type(config.k) == bool", "cond.c1", "cond.nope", "{\"a\": config.k}.a", "[config.k][0]", "[config.k][1]",
		"config.l.all(x, x)", "config.l.exists(x, x)", "config.l.map(x, x)[0]", "config.o.map(x, x)", "config.k ? config.s : config.n", "config.k && config.flag",
		"config.k || true", "true || config.k", "false && config.k", "!config.k", "-config.n", "config", "images", "environment", "package.metadata.name",
		"images.img", "environment.openShift.version", "environment.kubernetes.version >= \"1.20\"", "null", "1", "\"true\"", "b\"x\"", "[true]", "{}", "1.0 == 1",
		"config.k.k.k", "config.missing", "nope", "optional.of(config.k)", "config.?k", "config.s.matches(\"(\")", "timestamp(config.s)", "duration(config.s)",
		"config.k == null", "config.o == {}", "config.l == []", "size(config)", "config.n % 0", "uint(config.n)", "double(config.s)", "",
	}
	nf := r.Pick(1200, 20000)
	for i := 0; i < nf; i++ {
		e := celPool[g.R.Intn(len(celPool))]
		if e == "" || g.P(0.25) {
			e = g.Str("!", "-", "", "(", "") + celPool[g.R.Intn(len(celPool))] + g.Str("", " ? true : config.k", " == config.k", " && true", ")", " ? config.k : false", "[0]", ".k")
		}
		if e == "" {
			e = "config.k"
		}
		place := places[g.R.Intn(3)]
		var imgs map[string]string
		if g.P(0.5) {
			imgs = map[string]string{"img": "quay.io/x/img@sha256:00"}
		}
		emit(verifc19.Scn{Fn: "celX", Place: place, Blob: verifc19.Ptr(e), Cfg: mkCfg(), Imgs: imgs, N: verifc19.Ptr(int64(g.R.Intn(2)))},
			"cel-place="+place, "cel-free-form")
	}

	// ---- exploration: byte-level mutations of a YAML file (incl. CEL annotation), no model prediction
	base := "apiVersion: v1\nkind: ConfigMap\nmetadata:\n  name: a\n  annotations:\n    package-operator.run/phase: a\n" +
		"    package-operator.run/condition-map: |\n      Available => my.co/Avail\n    package-operator.run/condition: \"true\"\n" +
		"data:\n  k: v\n---\napiVersion: apps/v1\nkind: Deployment\nmetadata:\n  name: d\n  annotations: {package-operator.run/phase: b}\nspec: {replicas: 1}\n"
	nx := r.Pick(800, 30000)
	junk := []string{"\n", "---\n", ":", " ", "  ", "- ", "{", "}", "[", "]", "|", ">", "&a ", "*a", "!!binary ", "\"", "'", "#", "\x00", "=>", "null", "~", "? ", "%", "@", "`", "\r", "\xff", "é"}
	for i := 0; i < nx; i++ {
		b := []byte(base)
		for k := g.R.Intn(4) + 1; k > 0; k-- {
			pos := g.R.Intn(len(b) + 1)
			switch g.R.Intn(4) {
			case 0: // delete a span
				end := pos + g.R.Intn(12)
				if end > len(b) {
					end = len(b)
				}
				b = append(append([]byte{}, b[:pos]...), b[end:]...)
			case 1: // insert junk
				j := junk[g.R.Intn(len(junk))]
				b = append(append(append([]byte{}, b[:pos]...), j...), b[pos:]...)
			case 2: // flip a byte
				if pos < len(b) {
					b[pos] ^= byte(1 << uint(g.R.Intn(8)))
				}
			case 3: // duplicate a span
				end := pos + g.R.Intn(30)
				if end > len(b) {
					end = len(b)
				}
				b = append(append(append([]byte{}, b[:end]...), b[pos:end]...), b[end:]...)
			}
			if len(b) == 0 {
				b = []byte("a")
			}
		}
		blob := strings.ToValidUTF8(string(b), "?")
		emit(verifc19.Scn{Fn: "renderX", Phases: []string{"a", "b"}, Blob: verifc19.Ptr(blob)}, "yaml-bytes")
	}
}
