package probing

// EXPLORATION harness for property C19, stream `probe` (no model prediction beyond "does not
// panic / hang"): the REAL probe parser (internal/probing.Parse) and the REAL probers of
// pkg/probing (condition, fieldsEqual, CEL, observedGeneration, kind / label selectors) on generated
// probe specs and arbitrary object shapes.  Injected by `go test -overlay`.

import (
	"context"
	"encoding/json"
	"strings"
	"testing"
	"time"

	"k8s.io/apimachinery/pkg/apis/meta/v1/unstructured"

	corev1alpha1 "package-operator.run/apis/core/v1alpha1"
	"package-operator.run/internal/verifc19"
	"package-operator.run/internal/verifkit"
)

// blob = JSON of []corev1alpha1.ObjectSetProbe; obj = object to probe
func c19RunProbe(s verifc19.Scn) (out string, tag string) {
	if s.Fn != "probeX" || s.Blob == nil {
		return "BAD-FN", ""
	}
	var probes []corev1alpha1.ObjectSetProbe
	if err := json.Unmarshal([]byte(*s.Blob), &probes); err != nil {
		return "BAD-SCENARIO", ""
	}
	obj := &unstructured.Unstructured{Object: verifc19.DecodeObj(s.Obj)}
	tag = "parse-err"
	out = verifc19.GuardT(20*time.Second, func() string {
		p, err := Parse(context.Background(), probes)
		if err != nil {
			return "nopanic"
		}
		if ok, _ := p.Probe(obj); ok {
			tag = "probe-true"
		} else {
			tag = "probe-false"
		}
		return "nopanic"
	})
	return out, tag
}

func TestVerifC19Probe(t *testing.T) {
	r := verifkit.Open(t, "C19")
	defer r.Close()
	g := verifc19.G{R: r.Rng}
	seen := map[string]bool{}
	run := func(line string, extra ...string) {
		if seen[line] {
			return
		}
		seen[line] = true
		var s verifc19.Scn
		if err := json.Unmarshal([]byte(line), &s); err != nil {
			t.Fatalf("bad scenario %q: %v", line, err)
		}
		out, tag := c19RunProbe(s)
		r.Emit(line, out, append([]string{s.Fn, s.Fn + ":" + strings.SplitN(out, " ", 2)[0], "exploration", tag}, extra...)...)
	}
	for _, l := range r.Fixed() {
		run(l, "corpus")
	}
	if r.ReplayOnly() {
		return
	}

	paths := []string{".status.a", ".spec.a", "status.a", ".status.conditions", ".status.conditions[0].type", ".a.b.c", "", ".", "..", ".status..a",
		"{.status.a}", ".status.a[", ".metadata.generation", ".status", ".spec.list[1]", ".spec.list[*]", "$.x", ".\"q\"", ".status.a.b.c.d.e"}
	rules := []string{"true", "self.status.a == 1", "self.x", "self.status.conditions.exists(c, c.type == 'Available')", "1", "self.spec.a + 1 == 2",
		"has(self.status) && self.status.a == self.spec.a", "self.metadata.name.startsWith('o')", "self.spec.list[5] == 'x'", "1/0 == 1", "(", "",
		"self.status.conditions[0].status == 'True'", "self.spec.a / self.status.a > 0", "size(self.spec.list) > 0", "self.spec.list.all(x, x == 'a')",
		"duration(self.spec.d) < duration('1h')", "self.spec.a.matches('[')", "string(self.spec.a) == '1'", "self.status.a == self.status.a", "dyn(self) == null"}
	mkProbe := func() map[string]any {
		p := map[string]any{}
		switch g.R.Intn(5) {
		case 0:
			p["condition"] = map[string]any{"type": g.Str(verifc19.CondTypes...), "status": g.Str("True", "False", "", "weird")}
		case 1:
			p["fieldsEqual"] = map[string]any{"fieldA": paths[g.R.Intn(len(paths))], "fieldB": paths[g.R.Intn(len(paths))]}
		case 2:
			p["cel"] = map[string]any{"rule": rules[g.R.Intn(len(rules))], "message": "m"}
		case 3:
			// no known config
		case 4:
			p["condition"] = map[string]any{"type": "Available", "status": "True"}
			p["cel"] = map[string]any{"rule": "true", "message": "m"}
		}
		return p
	}
	mkSel := func() map[string]any {
		s := map[string]any{}
		if !g.P(0.3) {
			s["kind"] = map[string]any{"group": g.Str("", "apps"), "kind": g.Str("ConfigMap", "Deployment", "")}
		}
		if g.P(0.4) {
			switch g.R.Intn(4) {
			case 0:
				s["selector"] = map[string]any{"matchLabels": map[string]any{"l": "v"}}
			case 1:
				s["selector"] = map[string]any{"matchExpressions": []any{map[string]any{"key": "l", "operator": g.Str("In", "NotIn", "Exists", "DoesNotExist", "Bogus", ""), "values": []any{"v"}}}}
			case 2:
				s["selector"] = map[string]any{"matchLabels": map[string]any{"bad key!": "bad value!"}}
			case 3:
				s["selector"] = map[string]any{}
			}
		}
		return s
	}
	mkObj := func(mal float64) any {
		o := g.Object(mal)
		if g.P(0.6) {
			o["spec"] = g.Pick(map[string]any{"a": int64(1), "list": []any{"a", "b"}, "d": "5m"}, map[string]any{"a": "1"}, map[string]any{"a": nil}, "spec", nil, []any{}, g.JSON(3))
		}
		if st, ok := o["status"].(map[string]any); ok && g.P(0.5) {
			st["a"] = g.Pick(int64(1), "1", nil, 1.5, map[string]any{"b": map[string]any{"c": int64(1)}}, []any{int64(1)})
		}
		if md, ok := o["metadata"].(map[string]any); ok && g.P(0.5) {
			md["labels"] = g.Pick(map[string]any{"l": "v"}, map[string]any{"l": int64(1)}, "x", nil, map[string]any{})
		}
		if g.P(0.1) {
			return g.JSON(4)
		}
		return o
	}
	n := r.Pick(1500, 30000)
	for i := 0; i < n; i++ {
		var probes []any
		for k := g.R.Intn(3) + 1; k > 0; k-- {
			var ps []any
			for j := g.R.Intn(3); j > 0; j-- {
				ps = append(ps, mkProbe())
			}
			probes = append(probes, map[string]any{"probes": ps, "selector": mkSel()})
		}
		mal := 0.05
		tag := "valid-ish"
		if i%3 == 2 {
			mal = 0.4
			tag = "malformed"
		}
		pb, _ := json.Marshal(probes)
		b, err := json.Marshal(verifc19.Scn{Fn: "probeX", Blob: verifc19.Ptr(string(pb)), Obj: verifc19.Raw(mkObj(mal))})
		if err != nil {
			t.Fatal(err)
		}
		run(string(b), tag)
	}
}
