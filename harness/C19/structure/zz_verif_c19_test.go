package packagestructure

// EXPLORATION harness for property C19, stream `structure` (no model prediction beyond "does not
// panic / hang"): the REAL DefaultStructuralLoader.Load / LoadComponent - manifest and lock
// parsing, conversion, packagemanifestvalidation (config schema, test templates, constraints),
// multi-component splitting - on generated file maps with structure-aware and byte-level
// malformations.  Injected by `go test -overlay`.

import (
	"context"
	"encoding/json"
	"strings"
	"testing"
	"time"

	"package-operator.run/internal/packages/internal/packagetypes"
	"package-operator.run/internal/verifc19"
	"package-operator.run/internal/verifkit"
)

// blob = JSON object {path: content}; n = 0 Load, 1 LoadComponent(""), 2 LoadComponent("a"), 3 LoadComponent("zz")
func c19RunStructure(s verifc19.Scn) (out string, tag string) {
	if s.Fn != "structureX" || s.Blob == nil {
		return "BAD-FN", ""
	}
	var fm map[string]string
	if err := json.Unmarshal([]byte(*s.Blob), &fm); err != nil {
		return "BAD-SCENARIO", ""
	}
	files := packagetypes.Files{}
	for k, v := range fm {
		files[k] = []byte(v)
	}
	mode := int64(0)
	if s.N != nil {
		mode = *s.N
	}
	ctx := context.Background()
	tag = "load-err"
	out = verifc19.GuardT(30*time.Second, func() string {
		raw := &packagetypes.RawPackage{Files: files}
		var err error
		switch mode {
		case 0:
			_, err = DefaultStructuralLoader.Load(ctx, raw)
		case 1:
			_, err = DefaultStructuralLoader.LoadComponent(ctx, raw, "")
		case 2:
			_, err = DefaultStructuralLoader.LoadComponent(ctx, raw, "a")
		default:
			_, err = DefaultStructuralLoader.LoadComponent(ctx, raw, "zz")
		}
		if err == nil {
			tag = "load-ok"
		}
		return "nopanic"
	})
	return out, tag
}

const c19Manifest = `apiVersion: manifests.package-operator.run/v1alpha1
kind: PackageManifest
metadata:
  name: test
spec:
  scopes: [Cluster, Namespaced]
  phases:
  - name: a
  - name: b
    class: hosted
  availabilityProbes:
  - probes:
    - condition: {type: Available, status: "True"}
    - fieldsEqual: {fieldA: .spec.a, fieldB: .status.a}
    - cel: {rule: "self.x == 1", message: m}
    selector:
      kind: {group: apps, kind: Deployment}
  config:
    openAPIV3Schema:
      type: object
      properties:
        size: {type: integer, default: 3, minimum: 1}
        name: {type: string, pattern: "^[a-z]+$"}
        nested:
          type: object
          properties:
            list: {type: array, items: {type: string}}
      required: [name]
      x-kubernetes-validations:
      - rule: "self.size < 10"
  images:
  - name: web
    image: quay.io/x/y:v1
  constraints:
  - platform: [Kubernetes]
  - platformVersion: {name: Kubernetes, range: ">=1.20.x"}
  - uniqueInScope: {}
  filters:
    conditions:
    - name: c1
      expression: "true"
    paths:
    - glob: "x/**"
      expression: "cond.c1"
test:
  template:
  - name: t1
    context:
      package:
        metadata: {name: n, namespace: ns}
      config: {name: abc, size: 2}
  kubeconform:
    kubernetesVersion: v1.29.0
`

const c19Lock = `apiVersion: manifests.package-operator.run/v1alpha1
kind: PackageManifestLock
metadata:
  creationTimestamp: "2024-01-01T00:00:00Z"
spec:
  images:
  - name: web
    image: quay.io/x/y:v1
    digest: sha256:0000000000000000000000000000000000000000000000000000000000000000
`

const c19MultiManifest = `apiVersion: manifests.package-operator.run/v1alpha1
kind: PackageManifest
metadata:
  name: multi
spec:
  scopes: [Cluster]
  phases: [{name: a}]
  components: {}
`

func TestVerifC19Structure(t *testing.T) {
	r := verifkit.Open(t, "C19")
	defer r.Close()
	g := verifc19.G{R: r.Rng}
	seen := map[string]bool{}
	run := func(line string, extra ...string) {
		if seen[line] {
			return
		}
		seen[line] = true
		var s verifc19.Scn
		if err := json.Unmarshal([]byte(line), &s); err != nil {
			t.Fatalf("bad scenario %q: %v", line, err)
		}
		out, tag := c19RunStructure(s)
		r.Emit(line, out, append([]string{s.Fn, s.Fn + ":" + strings.SplitN(out, " ", 2)[0], "exploration", tag}, extra...)...)
	}
	emit := func(files map[string]string, mode int, extra ...string) {
		fb, _ := json.Marshal(files)
		b, err := json.Marshal(verifc19.Scn{Fn: "structureX", Blob: verifc19.Ptr(string(fb)), N: verifc19.Ptr(int64(mode))})
		if err != nil {
			t.Fatal(err)
		}
		run(string(b), extra...)
	}
	for _, l := range r.Fixed() {
		run(l, "corpus")
	}
	if r.ReplayOnly() {
		return
	}

	junk := []string{"\n", "---\n", ":", " ", "  ", "- ", "{", "}", "[", "]", "|", ">", "&a ", "*a", "<<: *a", "!!binary ", "\"", "'", "#",
		"null", "~", "? ", "%", "@", "\r", "é", "9999999999999999999999", "-1", "1e400", "type: ", "items: ", "properties: ", "default: ",
		"x-kubernetes-validations: ", "rule: ", "$ref: ", "nullable: true", "additionalProperties: ", "enum: ", "format: ", "oneOf: ",
		"  template:\n", "components: {}\n", "range: ", ">=", "||", "v1alpha1", "v1beta9", "kind: ", "Cluster"}
	mutate := func(src string, k int) string {
		b := []byte(src)
		for ; k > 0; k-- {
			pos := g.R.Intn(len(b) + 1)
			switch g.R.Intn(5) {
			case 0:
				end := pos + g.R.Intn(16)
				if end > len(b) {
					end = len(b)
				}
				b = append(append([]byte{}, b[:pos]...), b[end:]...)
			case 1, 2:
				j := junk[g.R.Intn(len(junk))]
				b = append(append(append([]byte{}, b[:pos]...), j...), b[pos:]...)
			case 3:
				if pos < len(b) {
					b[pos] ^= byte(1 << uint(g.R.Intn(7)))
				}
			case 4: // delete a whole line / duplicate a line with other indentation
				ls := strings.Split(string(b), "\n")
				i := g.R.Intn(len(ls))
				if g.P(0.5) {
					ls = append(ls[:i], ls[i+1:]...)
				} else {
					ls = append(ls[:i], append([]string{strings.Repeat(" ", g.R.Intn(8)) + strings.TrimSpace(ls[i])}, ls[i:]...)...)
				}
				b = []byte(strings.Join(ls, "\n"))
			}
			if len(b) == 0 {
				b = []byte("a")
			}
		}
		return strings.ToValidUTF8(string(b), "?")
	}
	paths := []string{"manifest.yaml", "manifest.yml", "manifest.lock.yaml", "manifest.lock.yml", "a.yaml", "x/b.yaml", "components", "components/a",
		"components/a/manifest.yaml", "components/a/x.yaml", "components/b/manifest.yaml", "components/.dot", "components/a/components/c/manifest.yaml",
		"components//manifest.yaml", "components/a/", "README.md", "", "/", "../x", "components/../manifest.yaml"}

	// fixed shapes first
	emit(map[string]string{"manifest.yaml": c19Manifest, "manifest.lock.yaml": c19Lock, "a.yaml": "kind: X"}, 0, "valid")
	emit(map[string]string{"manifest.yaml": c19MultiManifest, "components/a/manifest.yaml": c19Manifest, "components/b/manifest.yaml": c19Manifest}, 0, "valid")
	emit(map[string]string{}, 0, "empty")
	for _, p := range paths {
		for mode := 0; mode < 4; mode++ {
			emit(map[string]string{"manifest.yaml": c19MultiManifest, p: c19Manifest}, mode, "paths")
			emit(map[string]string{p: c19Manifest}, mode, "paths")
		}
	}
	n := r.Pick(400, 30000)
	for i := 0; i < n; i++ {
		files := map[string]string{}
		root := c19Manifest
		if g.P(0.3) {
			root = c19MultiManifest
		}
		tag := "byte-mutation"
		switch g.R.Intn(3) {
		case 0:
			files["manifest.yaml"] = mutate(root, g.R.Intn(4)+1)
		case 1:
			files["manifest.yaml"] = root
			files["manifest.lock.yaml"] = mutate(c19Lock, g.R.Intn(4)+1)
		case 2:
			files["manifest.yaml"] = mutate(root, g.R.Intn(2))
			for k := g.R.Intn(4); k > 0; k-- {
				files[paths[g.R.Intn(len(paths))]] = mutate(c19Manifest, g.R.Intn(3))
			}
			tag = "file-map"
		}
		emit(files, g.R.Intn(4), tag)
	}
}
