package controllers

// Correspondence harness for property C19, stream `cond`: the REAL mapConditions
// (phase_reconciler.go) on arbitrary shapes of the actual object's .status.
// Injected by `go test -overlay`.

import (
	"context"
	"encoding/json"
	"strings"
	"testing"
	"time"

	"k8s.io/apimachinery/pkg/apis/meta/v1/unstructured"

	corev1alpha1 "package-operator.run/apis/core/v1alpha1"
	"package-operator.run/internal/adapters"
	"package-operator.run/internal/verifc19"
	"package-operator.run/internal/verifkit"
)

func c19Name(s string) string {
	if s == "" {
		return "%e"
	}
	return s
}

func c19RunCond(s verifc19.Scn) string {
	switch s.Fn {
	case "mapConditions":
		obj := &unstructured.Unstructured{Object: verifc19.DecodeObj(s.Obj)}
		var maps []corev1alpha1.ConditionMapping
		for _, m := range s.Maps {
			if len(m) != 2 {
				return "BAD-SCENARIO"
			}
			maps = append(maps, corev1alpha1.ConditionMapping{SourceType: m[0], DestinationType: m[1]})
		}
		owner := &adapters.ObjectSetAdapter{}
		owner.Generation = 5
		return verifc19.GuardT(10*time.Second, func() string {
			if err := mapConditions(context.Background(), owner, maps, obj); err != nil {
				return "err"
			}
			var ts []string
			for _, c := range *owner.GetConditions() {
				ts = append(ts, c19Name(c.Type)+"="+c19Name(string(c.Status)))
			}
			if len(ts) == 0 {
				return "ok -"
			}
			return "ok " + strings.Join(ts, ",")
		})
	}
	return "BAD-FN"
}

func TestVerifC19Cond(t *testing.T) {
	r := verifkit.Open(t, "C19")
	defer r.Close()
	g := verifc19.G{R: r.Rng}
	seen := map[string]bool{}
	run := func(line string, extra ...string) {
		if seen[line] {
			return
		}
		seen[line] = true
		var s verifc19.Scn
		if err := json.Unmarshal([]byte(line), &s); err != nil {
			t.Fatalf("bad scenario %q: %v", line, err)
		}
		out := c19RunCond(s)
		tags := append([]string{s.Fn, s.Fn + ":" + strings.SplitN(out, " ", 2)[0]}, extra...)
		if strings.HasPrefix(out, "ok ") && out != "ok -" {
			tags = append(tags, "copied")
		}
		r.Emit(line, out, tags...)
	}
	emit := func(s verifc19.Scn, extra ...string) {
		b, err := json.Marshal(s)
		if err != nil {
			t.Fatal(err)
		}
		run(string(b), extra...)
	}
	for _, l := range r.Fixed() {
		run(l, "corpus")
	}
	if r.ReplayOnly() {
		return
	}

	allMaps := [][]string{{"Available", "Avail"}, {"Progressing", "my.co/Prog"}, {"Ready", "Avail"}, {"", "Empty"}, {"Available", "Other"}, {"Degraded", "Deg"}}
	// 1. small exhaustive table: every single-condition shape x status shape.
	vals := []any{nil, "Available", "", int64(5), 1.5, true, []any{}, map[string]any{}}
	for _, ty := range append([]any{"absent"}, vals...) {
		for _, og := range []any{"absent", nil, int64(0), int64(2), int64(3), "2", 1.5} {
			for _, ltt := range []any{"absent", nil, "2024-01-01T00:00:00Z", "garbage", int64(1)} {
				c := map[string]any{"status": "True", "reason": "R", "message": "m"}
				if ty != "absent" {
					c["type"] = ty
				}
				if og != "absent" {
					c["observedGeneration"] = og
				}
				if ltt != "absent" {
					c["lastTransitionTime"] = ltt
				}
				o := map[string]any{"metadata": map[string]any{"generation": int64(2)},
					"status": map[string]any{"conditions": []any{c}}}
				emit(verifc19.Scn{Fn: "mapConditions", Maps: allMaps[:2], Obj: verifc19.Raw(o)}, "table")
			}
		}
	}
	for _, st := range []any{"absent", nil, "s", int64(1), []any{}, map[string]any{},
		map[string]any{"conditions": nil}, map[string]any{"conditions": "x"}, map[string]any{"conditions": map[string]any{}},
		map[string]any{"conditions": []any{}}, map[string]any{"conditions": []any{nil}}, map[string]any{"conditions": []any{"x"}},
		map[string]any{"conditions": []any{[]any{}}}, map[string]any{"conditions": int64(3)}, map[string]any{"conditions": true}} {
		for _, md := range []any{"absent", nil, "m", map[string]any{}, map[string]any{"generation": "2"}, map[string]any{"generation": int64(2)}} {
			for _, mp := range [][][]string{nil, allMaps[:1]} {
				o := map[string]any{}
				if st != "absent" {
					o["status"] = st
				}
				if md != "absent" {
					o["metadata"] = md
				}
				emit(verifc19.Scn{Fn: "mapConditions", Maps: mp, Obj: verifc19.Raw(o)}, "table")
			}
		}
	}
	// 2. random: mostly valid objects, and a malformed stream.
	n := r.Pick(1500, 20000)
	for i := 0; i < n; i++ {
		mal := 0.05
		tag := "valid-ish"
		switch i % 3 {
		case 0:
			mal = 0
			tag = "valid"
		case 2:
			mal = 0.4
			tag = "malformed"
		}
		k := g.R.Intn(4) + 1
		if g.P(0.08) {
			k = 0
		}
		var mp [][]string
		for j := 0; j < k; j++ {
			mp = append(mp, allMaps[g.R.Intn(len(allMaps))])
		}
		var o any = g.Object(mal)
		if i%50 == 49 {
			o = g.JSON(4)
			tag = "arbitrary"
		}
		emit(verifc19.Scn{Fn: "mapConditions", Maps: mp, Obj: verifc19.Raw(o)}, tag)
	}
}
