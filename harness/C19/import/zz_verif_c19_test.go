package packageimport

// EXPLORATION harness for property C19, stream `import` (no model prediction beyond "does not
// panic / hang"): the REAL FromOCI on in-memory images whose single layer is a generated tar
// stream with structure-aware (odd paths, entry types) and byte-level corruption, and FromFolder-free
// helpers.  Injected by `go test -overlay`.

import (
	"archive/tar"
	"bytes"
	"context"
	"encoding/base64"
	"encoding/json"
	"io"
	"strings"
	"testing"
	"time"

	containerregistrypkgv1 "github.com/google/go-containerregistry/pkg/v1"
	"github.com/google/go-containerregistry/pkg/v1/empty"
	"github.com/google/go-containerregistry/pkg/v1/mutate"
	"github.com/google/go-containerregistry/pkg/v1/tarball"

	"package-operator.run/internal/verifc19"
	"package-operator.run/internal/verifkit"
)

// blob = base64 of the (uncompressed) layer tar stream.
func c19RunImport(s verifc19.Scn) (out string, tag string) {
	if s.Fn != "importX" || s.Blob == nil {
		return "BAD-FN", ""
	}
	raw, err := base64.StdEncoding.DecodeString(*s.Blob)
	if err != nil {
		return "BAD-SCENARIO", ""
	}
	layer, err := tarball.LayerFromOpener(func() (io.ReadCloser, error) {
		return io.NopCloser(bytes.NewReader(raw)), nil
	})
	if err != nil {
		return "nopanic", "layer-refused" // go-containerregistry refused the layer before PKO code saw it
	}
	img, err := mutate.ConfigFile(empty.Image, &containerregistrypkgv1.ConfigFile{RootFS: containerregistrypkgv1.RootFS{Type: "layers"}})
	if err != nil {
		return "BAD-SCENARIO", ""
	}
	img, err = mutate.AppendLayers(img, layer)
	if err != nil {
		return "nopanic", "layer-refused"
	}
	tag = "import-err"
	out = verifc19.GuardT(30*time.Second, func() string {
		if _, err := FromOCI(context.Background(), img); err == nil {
			tag = "import-ok"
		}
		return "nopanic"
	})
	return out, tag
}

type c19Entry struct {
	name string
	typ  byte
	data string
	link string
}

func c19Tar(es []c19Entry) []byte {
	var buf bytes.Buffer
	tw := tar.NewWriter(&buf)
	for _, e := range es {
		h := &tar.Header{Name: e.name, Typeflag: e.typ, Mode: 0o644, Linkname: e.link}
		if e.typ == tar.TypeReg {
			h.Size = int64(len(e.data))
		}
		if err := tw.WriteHeader(h); err != nil {
			continue
		}
		if e.typ == tar.TypeReg {
			_, _ = tw.Write([]byte(e.data))
		}
	}
	_ = tw.Close()
	return buf.Bytes()
}

func TestVerifC19Import(t *testing.T) {
	r := verifkit.Open(t, "C19")
	defer r.Close()
	g := verifc19.G{R: r.Rng}
	seen := map[string]bool{}
	run := func(line string, extra ...string) {
		if seen[line] {
			return
		}
		seen[line] = true
		var s verifc19.Scn
		if err := json.Unmarshal([]byte(line), &s); err != nil {
			t.Fatalf("bad scenario %q: %v", line, err)
		}
		out, tag := c19RunImport(s)
		r.Emit(line, out, append([]string{s.Fn, s.Fn + ":" + strings.SplitN(out, " ", 2)[0], "exploration", tag}, extra...)...)
	}
	emit := func(raw []byte, extra ...string) {
		b, err := json.Marshal(verifc19.Scn{Fn: "importX", Blob: verifc19.Ptr(base64.StdEncoding.EncodeToString(raw))})
		if err != nil {
			t.Fatal(err)
		}
		run(string(b), extra...)
	}
	for _, l := range r.Fixed() {
		run(l, "corpus")
	}
	if r.ReplayOnly() {
		return
	}

	names := []string{"package/manifest.yaml", "package/a.yaml", "package/x/b.yaml", "package/.hidden", "package/x/.h/c.yaml", "manifest.yaml",
		"package", "package/", "/package/a.yaml", "../package/a.yaml", "package/../../etc/passwd", "", ".", "/", "package//a.yaml", "./package/a.yaml",
		"package/" + strings.Repeat("d/", 60) + "f.yaml", "package/\x00.yaml", "package/é.yaml", "pack"}
	types := []byte{tar.TypeReg, tar.TypeReg, tar.TypeReg, tar.TypeDir, tar.TypeSymlink, tar.TypeLink, tar.TypeFifo, tar.TypeChar}
	mkEntries := func() []c19Entry {
		var es []c19Entry
		for k := g.R.Intn(5); k > 0; k-- {
			e := c19Entry{name: names[g.R.Intn(len(names))], typ: types[g.R.Intn(len(types))], data: g.Str("", "a: b\n", strings.Repeat("x", 600))}
			if e.typ == tar.TypeSymlink || e.typ == tar.TypeLink {
				e.link = names[g.R.Intn(len(names))]
			}
			es = append(es, e)
		}
		return es
	}
	valid := c19Tar([]c19Entry{{name: "package/manifest.yaml", typ: tar.TypeReg, data: "kind: PackageManifest\n"}, {name: "package/a.yaml", typ: tar.TypeReg, data: "a: b\n"}})
	emit(valid, "valid")
	emit(nil, "empty")
	emit(c19Tar(nil), "empty")
	for _, nm := range names {
		for _, ty := range types[2:] {
			emit(c19Tar([]c19Entry{{name: nm, typ: ty, data: "a: b\n", link: "package/a.yaml"}}), "paths")
		}
	}
	// truncation at every 64-byte boundary and around the header/data borders
	for cut := 0; cut <= len(valid); cut += 64 {
		emit(valid[:cut], "truncated")
	}
	for _, cut := range []int{1, 100, 148, 156, 257, 500, 511, 513, 1000, 1023, 1025} {
		if cut < len(valid) {
			emit(valid[:cut], "truncated")
		}
	}
	n := r.Pick(600, 40000)
	for i := 0; i < n; i++ {
		raw := c19Tar(mkEntries())
		tag := "structured"
		if i%2 == 1 {
			tag = "corrupted"
			raw = append([]byte{}, raw...)
			for k := g.R.Intn(4) + 1; k > 0 && len(raw) > 0; k-- {
				pos := g.R.Intn(len(raw))
				switch g.R.Intn(4) {
				case 0:
					raw[pos] ^= byte(1 << uint(g.R.Intn(8)))
				case 1:
					raw = raw[:pos]
				case 2: // damage inside a header block (name / size / checksum / typeflag fields)
					blk := (pos / 512) * 512
					off := []int{0, 100, 124, 130, 148, 150, 156, 157, 257, 263, 345}[g.R.Intn(11)]
					if blk+off < len(raw) {
						raw[blk+off] = byte(g.R.Intn(256))
					}
				case 3:
					end := pos + g.R.Intn(600)
					if end > len(raw) {
						end = len(raw)
					}
					raw = append(append([]byte{}, raw[:pos]...), raw[end:]...)
				}
			}
		}
		emit(raw, tag)
	}
}
