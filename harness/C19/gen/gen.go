// Package verifc19 is injected into the repository by `go test -overlay` (never committed there).
// Shared pieces of the C19 harnesses: JSON generators (structure-aware + malformed), the
// scenario <-> Go value round trip, and the watchdog around verifkit.Guard.
package verifc19

import (
	"encoding/json"
	"math/rand"
	"time"

	utiljson "k8s.io/apimachinery/pkg/util/json"

	"package-operator.run/internal/verifkit"
)

// Scn is the one scenario format of drv_c19; `fn` selects the function under test, every other
// field is optional and only read by the functions that need it.
type Scn struct {
	Fn     string            `json:"fn"`
	Maps   [][]string        `json:"maps,omitempty"`   // mapConditions: [sourceType, destinationType]
	TGen   *int64            `json:"tgen,omitempty"`   // ObjectTemplate metadata.generation
	Obj    json.RawMessage   `json:"obj,omitempty"`    // object content (actual / owned / source object)
	Key    *string           `json:"key,omitempty"`    // copySourceItem: item.Key
	Dest   *string           `json:"dest,omitempty"`   // copySourceItem: item.Destination
	Cfg    json.RawMessage   `json:"cfg,omitempty"`    // copySourceItem: sourcesConfig before the call
	Phases []string          `json:"phases,omitempty"` // render: manifest phases
	Objs   []json.RawMessage `json:"objs,omitempty"`   // render: package objects
	CM     *string           `json:"cm,omitempty"`     // parseCM: annotation value
	Blob   *string           `json:"blob,omitempty"`   // exploration payload (opaque to the model)
	N      *int64            `json:"n,omitempty"`      // exploration: small integer knob
	// cel / celX (render stream): a CEL expression at one of the three places package content can
	// put one, evaluated against a render context built from Cfg (spec.config), Imgs and N
	// (environment knob: bit 0 = OpenShift present).
	Place string            `json:"place,omitempty"` // ann (package-operator.run/condition) | cond (spec.filters.conditions[]) | path (spec.filters.paths[])
	Expr  *CelExpr          `json:"expr,omitempty"`  // cel: the expression as a tree (celX: Blob holds free text)
	Imgs  map[string]string `json:"imgs,omitempty"`  // images of the render context
	// tree (cli stream): one row of the kubectl-package config-resolution decision table.
	Cli *CliScn `json:"cli,omitempty"`
	// tmpl (render stream): templates t0..tk as sequences of -1 (emit a mark) / n >= 0 (include t<n>),
	// and the body of the executed template file
	Prog  [][]int `json:"prog,omitempty"`
	Entry []int   `json:"entry,omitempty"`
}

// CliScn describes a package on disk (manifest scopes, config schema, test templates) plus the
// `kubectl package tree` options.  Every field is always emitted (the Lean side reads them all).
//
//	scopes   spec.scopes of the manifest
//	schema   spec.config.openAPIV3Schema present; props = its top-level properties (all type string)
//	tpls     test.template[]
//	cp       --config-path: "" not given | missing (file does not exist) | obj | null | empty |
//	         comment | scalar | list | bad (not YAML); cpk = keys of the object (cp=obj), values are "v"
//	tc       --config-testcase ("" = not given)
//	cluster  --cluster
type CliScn struct {
	Scopes  []string  `json:"scopes"`
	Schema  bool      `json:"schema"`
	Props   []CliProp `json:"props"`
	Tpls    []CliTpl  `json:"tpls"`
	CP      string    `json:"cp"`
	CPK     []string  `json:"cpk"`
	TC      string    `json:"tc"`
	Cluster bool      `json:"cluster"`
}

// CliProp is one top-level property of the config schema: name, has a default, is required.
type CliProp struct {
	N string `json:"n"`
	D bool   `json:"d"`
	R bool   `json:"r"`
}

// CliTpl is one test.template[] entry.
//
//	cfg  context.config as written in manifest.yaml: "" key absent | null | obj (keys ck, values "v") | scalar
//	pkg  context.package: "" absent | ns (metadata.name + namespace) | nons (metadata.name only)
type CliTpl struct {
	Name string   `json:"name"`
	Cfg  string   `json:"cfg"`
	CK   []string `json:"ck"`
	Pkg  string   `json:"pkg"`
}

// CelExpr is the modelled fragment of CEL: bool literal, field selection from a context variable,
// negation, conditional.
//
//	{"k":"lit","b":true} | {"k":"get","p":["config","a"]} | {"k":"not","e":E} | {"k":"tern","c":E,"x":E,"y":E}
type CelExpr struct {
	K string   `json:"k"`
	B bool     `json:"b,omitempty"`
	P []string `json:"p,omitempty"`
	E *CelExpr `json:"e,omitempty"`
	C *CelExpr `json:"c,omitempty"`
	X *CelExpr `json:"x,omitempty"`
	Y *CelExpr `json:"y,omitempty"`
}

func Lit(b bool) *CelExpr            { return &CelExpr{K: "lit", B: b} }
func Get(p ...string) *CelExpr       { return &CelExpr{K: "get", P: p} }
func Not(e *CelExpr) *CelExpr        { return &CelExpr{K: "not", E: e} }
func Tern(c, x, y *CelExpr) *CelExpr { return &CelExpr{K: "tern", C: c, X: x, Y: y} }

// Src prints the expression in CEL syntax ("" for a malformed tree).
func (e *CelExpr) Src() string {
	if e == nil {
		return ""
	}
	switch e.K {
	case "lit":
		if e.B {
			return "true"
		}
		return "false"
	case "get":
		if len(e.P) == 0 {
			return ""
		}
		out := e.P[0]
		for _, k := range e.P[1:] {
			out += "." + k
		}
		return out
	case "not":
		if e.E == nil {
			return ""
		}
		return "!(" + e.E.Src() + ")"
	case "tern":
		if e.C == nil || e.X == nil || e.Y == nil {
			return ""
		}
		return "(" + e.C.Src() + " ? " + e.X.Src() + " : " + e.Y.Src() + ")"
	}
	return ""
}

// Dyn reports whether the CEL type checker gives the expression the static type dyn (any):
// every field selection from a template-context variable (declared map(string, any)) is dyn.
func (e *CelExpr) Dyn() bool {
	if e == nil {
		return false
	}
	switch e.K {
	case "get":
		return true
	case "tern":
		return e.X.Dyn() || e.Y.Dyn()
	}
	return false
}

// Raw marshals a generated value (map keys sorted by encoding/json).
func Raw(v any) json.RawMessage {
	b, err := json.Marshal(v)
	if err != nil {
		panic(err)
	}
	return b
}

// Decode parses scenario JSON exactly like the API machinery does (integers -> int64, other
// numbers -> float64).  The harness always runs on the DECODED scenario, so a replay is identical
// to the generated run.
func Decode(raw json.RawMessage) (any, error) {
	if len(raw) == 0 {
		return nil, nil
	}
	var v any
	if err := utiljson.Unmarshal(raw, &v); err != nil {
		return nil, err
	}
	return v, nil
}

// DecodeObj decodes to a map (nil map when the JSON is not an object).
func DecodeObj(raw json.RawMessage) map[string]any {
	v, _ := Decode(raw)
	m, _ := v.(map[string]any)
	return m
}

func Ptr[T any](v T) *T { return &v }

// GuardT = verifkit.Guard + watchdog: a call that does not return within d yields "TIMEOUT".
// (A goroutine stack overflow is fatal in Go and kills the test binary; the check then reports
// the stream as not completed.)
func GuardT(d time.Duration, f func() string) string {
	ch := make(chan string, 1)
	go func() { ch <- verifkit.Guard(f) }()
	select {
	case s := <-ch:
		return s
	case <-time.After(d):
		return "TIMEOUT"
	}
}

// ---------------------------------------------------------------- generators

type G struct{ R *rand.Rand }

func (g G) Pick(xs ...any) any { return xs[g.R.Intn(len(xs))] }

func (g G) Str(xs ...string) string { return xs[g.R.Intn(len(xs))] }

func (g G) P(p float64) bool { return g.R.Float64() < p }

// Scalars returns one of the non-container JSON shapes.
func (g G) Scalar() any {
	return g.Pick(nil, true, false, int64(0), int64(1), int64(2), int64(7), int64(-1), 1.5, "", "x", "True", "a.b")
}

// JSON returns an arbitrary JSON value of bounded depth (keys from a small pool so that paths hit).
func (g G) JSON(depth int) any {
	if depth <= 0 || g.P(0.45) {
		return g.Scalar()
	}
	if g.P(0.4) {
		n := g.R.Intn(4)
		out := make([]any, n)
		for i := range out {
			out[i] = g.JSON(depth - 1)
		}
		return out
	}
	n := g.R.Intn(4)
	out := map[string]any{}
	for i := 0; i < n; i++ {
		out[g.Str("a", "b", "c", "status", "conditions", "type", "message", "metadata", "")] = g.JSON(depth - 1)
	}
	return out
}

// WrongType returns a value that is NOT a string.
func (g G) WrongType() any {
	return g.Pick(nil, true, int64(5), 1.5, []any{}, []any{"x"}, map[string]any{}, map[string]any{"a": "b"})
}

// Gen returns a generation-like value: mostly small ints, sometimes a malformed one.
func (g G) Gen(malformed float64) any {
	if g.P(malformed) {
		return g.Pick(nil, "1", 1.5, true, []any{}, map[string]any{})
	}
	return int64(g.R.Intn(4))
}

var CondTypes = []string{"Available", "Progressing", "Ready", "Degraded", ""}

// Condition returns one entry of a .status.conditions list.  mal is the probability of each
// single malformation (missing field / wrong type / non-map entry).
func (g G) Condition(mal float64, gen int64) any {
	if g.P(mal / 2) {
		return g.Pick(nil, "cond", int64(3), []any{}, true, 1.5)
	}
	c := map[string]any{}
	field := func(name string, pool ...string) {
		switch {
		case g.P(mal):
			// omitted
		case g.P(mal):
			c[name] = g.WrongType()
		default:
			c[name] = g.Str(pool...)
		}
	}
	field("type", CondTypes...)
	field("status", "True", "False", "Unknown", "weird")
	field("reason", "AsExpected", "R", "")
	field("message", "all good", "m", "")
	switch {
	case g.P(0.35):
		// no observedGeneration
	case g.P(mal):
		c["observedGeneration"] = g.Pick(nil, "2", 1.5, true, []any{}, map[string]any{})
	case g.P(0.6):
		c["observedGeneration"] = gen // up to date
	default:
		c["observedGeneration"] = int64(g.R.Intn(4))
	}
	if g.P(0.3) {
		if g.P(mal) {
			c["lastTransitionTime"] = g.Pick("garbage", "", int64(5), true, []any{}, map[string]any{}, 1.5)
		} else {
			c["lastTransitionTime"] = g.Pick("2024-01-01T00:00:00Z", nil)
		}
	}
	if g.P(0.15) {
		c[g.Str("extra", "x-y", "lastProbeTime")] = g.JSON(1)
	}
	return c
}

// Status returns a .status value: usually a map with observedGeneration/conditions, sometimes garbage.
func (g G) Status(mal float64, gen int64) (any, bool) {
	if g.P(mal / 2) {
		return nil, false // absent
	}
	if g.P(mal / 2) {
		return g.Pick(nil, "status", int64(1), []any{}, true, 1.5), true
	}
	st := map[string]any{}
	switch {
	case g.P(0.4):
	case g.P(mal):
		st["observedGeneration"] = g.Pick(nil, "1", 1.5, true, []any{}, map[string]any{})
	case g.P(0.5):
		st["observedGeneration"] = gen
	default:
		st["observedGeneration"] = int64(g.R.Intn(4))
	}
	switch {
	case g.P(mal / 2):
	case g.P(mal / 2):
		st["conditions"] = g.Pick(nil, "x", int64(1), map[string]any{}, map[string]any{"type": "Available"}, true, 1.5)
	default:
		n := g.R.Intn(5)
		cs := make([]any, n)
		for i := range cs {
			cs[i] = g.Condition(mal, gen)
		}
		st["conditions"] = cs
	}
	if g.P(0.2) {
		st["phase"] = "Running"
	}
	return st, true
}

// Object returns an object with metadata.generation and status of the given malformation rate.
func (g G) Object(mal float64) map[string]any {
	o := map[string]any{"apiVersion": "v1", "kind": "ConfigMap"}
	gen := int64(g.R.Intn(4))
	switch {
	case g.P(mal / 3):
		o["metadata"] = g.Pick(nil, "m", int64(1), []any{})
	default:
		md := map[string]any{"name": "o"}
		if !g.P(0.2) {
			md["generation"] = gen
			if g.P(mal / 2) {
				md["generation"] = g.Gen(1)
			}
		}
		o["metadata"] = md
	}
	if st, ok := g.Status(mal, gen); ok {
		o["status"] = st
	}
	return o
}
