package cmd

// Correspondence + exploration harness for property C19, stream `cli`: the REAL entry points of the
// kubectl-package CLI in internal/cmd, on packages written to a temp dir.  Injected by
// `go test -overlay`.
//
//	fn=tree   MODELLED (Pko.Model.TreeConfig): one row of the config-resolution decision table of
//	          `kubectl package tree`: Tree.RenderPackage with --config-path given / absent (valid object,
//	          null / empty / comment-only document, scalar, list, not YAML, missing file) x
//	          --config-testcase given / absent / unknown x test templates with and without
//	          context.config / context.package (duplicate names included) x config schema absent /
//	          with and without defaults / required x --cluster x spec.scopes.  After the real
//	          RenderPackage call the same inputs go through the stages one by one (real functions:
//	          FromFolder, LoadComponent, Tree.getConfig, Tree.getTemplateContext,
//	          AdmitPackageConfiguration) so that the output line says where the run ended.
//	fn=cliX   EXPLORATION (model = "nopanic"): Tree.RenderPackage / Validate.ValidatePackage /
//	          Update.GenerateLockData / Build.BuildFromSource on the table's packages and on seeded
//	          random packages (random schemas with nested defaults / nullable / required, random test
//	          templates, templated objects reading .config, byte-mutated manifests, random config files).
//
// Every call runs under verifkit.Guard: a panic becomes "PANIC <innermost PKO frame> <message>".

import (
	"context"
	"encoding/json"
	"errors"
	"fmt"
	"os"
	"path/filepath"
	"runtime"
	"sort"
	"strings"
	"sync"
	"testing"
	"time"

	k8sruntime "k8s.io/apimachinery/pkg/runtime"
	"k8s.io/apimachinery/pkg/util/validation/field"

	"package-operator.run/internal/packages"
	"package-operator.run/internal/verifc19"
	"package-operator.run/internal/verifkit"
)

// ---------------------------------------------------------------- package on disk

func c19Strs(xs []string) []any {
	out := make([]any, len(xs))
	for i, x := range xs {
		out[i] = x
	}
	return out
}

func c19KV(keys []string) map[string]any {
	m := map[string]any{}
	for _, k := range keys {
		m[k] = "v"
	}
	return m
}

// c19Manifest renders the PackageManifest of a table row (JSON is YAML).
func c19Manifest(c *verifc19.CliScn) string {
	spec := map[string]any{
		"scopes": c19Strs(c.Scopes),
		"phases": []any{map[string]any{"name": "deploy"}},
		"availabilityProbes": []any{map[string]any{
			"probes":   []any{map[string]any{"condition": map[string]any{"type": "Available", "status": "True"}}},
			"selector": map[string]any{"kind": map[string]any{"group": "apps", "kind": "Deployment"}},
		}},
	}
	if c.Schema {
		props := map[string]any{}
		req := []any{}
		for _, p := range c.Props {
			ps := map[string]any{"type": "string"}
			if p.D {
				ps["default"] = "dflt"
			}
			props[p.N] = ps
			if p.R {
				req = append(req, p.N)
			}
		}
		sch := map[string]any{"type": "object", "properties": props}
		if len(req) > 0 {
			sch["required"] = req
		}
		spec["config"] = map[string]any{"openAPIV3Schema": sch}
	}
	tpls := []any{}
	for _, t := range c.Tpls {
		ctx := map[string]any{}
		switch t.Pkg {
		case "ns":
			ctx["package"] = map[string]any{"metadata": map[string]any{"name": "pk-" + t.Name, "namespace": "ns-" + t.Name}}
		case "nons":
			ctx["package"] = map[string]any{"metadata": map[string]any{"name": "pk-" + t.Name}}
		}
		switch t.Cfg {
		case "null":
			ctx["config"] = nil
		case "obj":
			ctx["config"] = c19KV(t.CK)
		case "scalar":
			ctx["config"] = int64(5)
		}
		tpls = append(tpls, map[string]any{"name": t.Name, "context": ctx})
	}
	m := map[string]any{
		"apiVersion": "manifests.package-operator.run/v1alpha1",
		"kind":       "PackageManifest",
		"metadata":   map[string]any{"name": "cli-pkg"},
		"spec":       spec,
	}
	if len(tpls) > 0 {
		m["test"] = map[string]any{"template": tpls}
	}
	b, err := json.Marshal(m)
	if err != nil {
		panic(err)
	}
	return string(b)
}

const c19StaticObject = `apiVersion: v1
kind: ConfigMap
metadata:
  name: static
  annotations:
    package-operator.run/phase: deploy
data:
  a: b
`

// c19ConfigFile: content of the --config-path file of a table row ("" , false = no such file).
func c19ConfigFile(c *verifc19.CliScn) (content string, exists bool) {
	switch c.CP {
	case "obj":
		var b strings.Builder
		if len(c.CPK) == 0 {
			return "{}\n", true
		}
		for _, k := range c.CPK {
			fmt.Fprintf(&b, "%s: v\n", k)
		}
		return b.String(), true
	case "null":
		return "null\n", true
	case "empty":
		return "", true
	case "comment":
		return "# nothing here\n---\n", true
	case "scalar":
		return "5\n", true
	case "list":
		return "- a\n- b\n", true
	case "bad":
		return "{\n", true
	}
	return "", false
}

// c19Job is what a worker runs: files of the package, the config file, the options, the entry point.
type c19Job struct {
	files   map[string]string
	cpMode  string // "" not given | missing | file
	cpData  string
	tc      string
	cluster bool
}

func c19Write(base string, j c19Job) (pkgDir, cfgPath string, cleanup func(), err error) {
	dir, err := os.MkdirTemp(base, "s")
	if err != nil {
		return "", "", func() {}, err
	}
	cleanup = func() { os.RemoveAll(dir) }
	pkgDir = filepath.Join(dir, "pkg")
	if err := os.MkdirAll(pkgDir, 0o755); err != nil {
		return "", "", cleanup, err
	}
	for p, content := range j.files {
		clean := filepath.Clean("/" + p)
		if clean == "/" {
			continue
		}
		abs := filepath.Join(pkgDir, clean)
		if err := os.MkdirAll(filepath.Dir(abs), 0o755); err != nil {
			continue // a path below a regular file: skip, the rest of the package is still a package
		}
		if err := os.WriteFile(abs, []byte(content), 0o644); err != nil {
			continue
		}
	}
	switch j.cpMode {
	case "missing":
		cfgPath = filepath.Join(dir, "does-not-exist.yaml")
	case "file":
		cfgPath = filepath.Join(dir, "config.yaml")
		if err := os.WriteFile(cfgPath, []byte(j.cpData), 0o644); err != nil {
			return "", "", cleanup, err
		}
	}
	return pkgDir, cfgPath, cleanup, nil
}

type c19SharedEntry struct {
	once sync.Once
	path string
	err  error
}

var c19SharedDirs sync.Map // content key -> *c19SharedEntry

func c19SharedPath(key string, mk func() (string, error)) (string, error) {
	v, _ := c19SharedDirs.LoadOrStore(key, &c19SharedEntry{})
	e := v.(*c19SharedEntry)
	e.once.Do(func() { e.path, e.err = mk() })
	return e.path, e.err
}

// c19Shared writes the package and the config file of a read-only job once per distinct content.
func c19Shared(base string, j c19Job) (pkgDir, cfgPath string, err error) {
	fb, _ := json.Marshal(j.files)
	pkgDir, err = c19SharedPath(base+"\x00pkg\x00"+string(fb), func() (string, error) {
		d, _, _, err := c19Write(base, c19Job{files: j.files})
		return d, err
	})
	if err != nil {
		return "", "", err
	}
	switch j.cpMode {
	case "missing":
		cfgPath = filepath.Join(base, "does-not-exist.yaml")
	case "file":
		cfgPath, err = c19SharedPath(base+"\x00cfg\x00"+j.cpData, func() (string, error) {
			f, err := os.CreateTemp(base, "config-*.yaml")
			if err != nil {
				return "", err
			}
			defer f.Close()
			_, err = f.WriteString(j.cpData)
			return f.Name(), err
		})
	}
	return pkgDir, cfgPath, err
}

func c19Opts(j c19Job, cfgPath string) ([]RenderPackageOption, RenderPackageConfig) {
	var opts []RenderPackageOption
	if cfgPath != "" {
		opts = append(opts, WithConfigPath(cfgPath))
	}
	if j.tc != "" {
		opts = append(opts, WithConfigTestcase(j.tc))
	}
	if j.cluster {
		opts = append(opts, WithClusterScope(true))
	}
	var rc RenderPackageConfig
	rc.Option(opts...)
	return opts, rc
}

func c19Keys(m map[string]any) string {
	ks := make([]string, 0, len(m))
	for k := range m {
		ks = append(ks, k)
	}
	sort.Strings(ks)
	return "[" + strings.Join(ks, ",") + "]"
}

func c19E(err error) string {
	if err != nil {
		return "err"
	}
	return "ok"
}

// the runtime scheme of the CLI (compiled-in data, read-only afterwards): built once
var (
	c19SchemeOnce sync.Once
	c19Scheme     = struct {
		s   *k8sruntime.Scheme
		err error
	}{}
)

func c19GetScheme() (*k8sruntime.Scheme, error) {
	c19SchemeOnce.Do(func() { c19Scheme.s, c19Scheme.err = NewScheme() })
	return c19Scheme.s, c19Scheme.err
}

// ---------------------------------------------------------------- fn=tree

func c19RunTree(base string, s verifc19.Scn) (out string, tags []string) {
	if s.Cli == nil {
		return "BAD-SCENARIO", nil
	}
	c := s.Cli
	j := c19Job{files: map[string]string{"manifest.yaml": c19Manifest(c), "static.yaml": c19StaticObject}, tc: c.TC, cluster: c.Cluster}
	if c.CP != "" {
		if data, ok := c19ConfigFile(c); ok {
			j.cpMode, j.cpData = "file", data
		} else {
			j.cpMode = "missing"
		}
	}
	// `tree` only reads the package directory and the config file: rows with the same package /
	// the same config file share them.
	pkgDir, cfgPath, err := c19Shared(base, j)
	if err != nil {
		return "BAD-TEMPDIR", nil
	}
	opts, rc := c19Opts(j, cfgPath)
	ctx := context.Background()
	stage := "load"
	out = verifc19.GuardT(60*time.Second, func() string {
		scheme, err := c19GetScheme()
		if err != nil {
			return "BAD-SCHEME"
		}
		tree := NewTree(scheme)
		// the entry point `kubectl package tree` calls
		_, rerr := tree.RenderPackage(ctx, pkgDir, opts...)
		render := " render=" + c19E(rerr)
		// the same run stage by stage (all real functions), to say where it ended
		raw, err := packages.FromFolder(ctx, pkgDir)
		if err != nil {
			return "BAD-FROMFOLDER"
		}
		pkg, err := packages.DefaultStructuralLoader.LoadComponent(ctx, raw, "")
		if err != nil {
			return "tree load=err" + render
		}
		stage = "cfg-err"
		tctx := tree.getTemplateContext(pkg, rc)
		cfg, err := tree.getConfig(pkg, rc)
		if err != nil {
			if cfg != nil {
				return "BAD-CONFIG-WITH-ERROR"
			}
			return "tree cfg=err" + render
		}
		stage = "admit"
		line := "cfg=ok" + c19Keys(cfg)
		if cfg == nil {
			line = "cfg=nilmap"
		}
		verrs, err := packages.AdmitPackageConfiguration(ctx, cfg, pkg.Manifest, field.NewPath("spec", "config"))
		switch {
		case err != nil:
			line += " adm=err"
		case len(verrs) > 0:
			line += " adm=invalid"
		default:
			line += " adm=ok" + c19Keys(cfg)
			stage = "render"
		}
		return "tree " + line + " ctx=" + verifkit.Esc(tctx.Package.Name) + "/" + verifkit.Esc(tctx.Package.Namespace) + render
	})
	first := strings.SplitN(strings.TrimPrefix(out, "tree "), " ", 2)[0]
	tags = []string{"tree", "tree:" + strings.SplitN(first, "[", 2)[0], "stage:" + stage, "cp:" + c.CP}
	switch {
	case c.CP != "":
		tags = append(tags, "branch:config-path")
	case c.TC != "":
		tags = append(tags, "branch:testcase")
	case len(c.Tpls) > 0:
		tags = append(tags, "branch:first-template")
	default:
		tags = append(tags, "branch:empty")
	}
	if strings.HasSuffix(out, "render=ok") {
		tags = append(tags, "render-ok")
	}
	return out, tags
}

// ---------------------------------------------------------------- fn=cliX

type c19X struct {
	Files   map[string]string `json:"files"`
	CPMode  string            `json:"cpm"` // "" | missing | file
	CPData  string            `json:"cpc"`
	TC      string            `json:"tc"`
	Cluster bool              `json:"cluster"`
}

type c19FakeResolver struct{}

func (c19FakeResolver) ResolveDigest(ref string, _ ...ResolveDigestOption) (string, error) {
	if strings.Contains(ref, "fail") {
		return "", errors.New("no such image")
	}
	return "sha256:0000000000000000000000000000000000000000000000000000000000000000", nil
}

var c19Entries = []string{"tree", "validate", "update", "build"}

func c19RunX(base string, s verifc19.Scn) (out string, tags []string) {
	if s.Blob == nil {
		return "BAD-SCENARIO", nil
	}
	var x c19X
	if err := json.Unmarshal([]byte(*s.Blob), &x); err != nil {
		return "BAD-SCENARIO", nil
	}
	entry := int64(0)
	if s.N != nil {
		entry = *s.N
	}
	if entry < 0 || int(entry) >= len(c19Entries) {
		return "BAD-ENTRY", nil
	}
	// `build` validates the lock file's digests against the registry (network): never with a lock file
	if entry == 3 {
		for p := range x.Files {
			if strings.Contains(p, "manifest.lock") {
				delete(x.Files, p)
			}
		}
	}
	j := c19Job{files: x.Files, cpMode: x.CPMode, cpData: x.CPData, tc: x.TC, cluster: x.Cluster}
	// `tree` only reads the package directory and the config file: rows with the same package /
	// the same config file share them.
	pkgDir, cfgPath, err := c19Shared(base, j)
	if err != nil {
		return "BAD-TEMPDIR", nil
	}
	opts, _ := c19Opts(j, cfgPath)
	ctx := context.Background()
	res, why := "err", ""
	out = verifc19.GuardT(60*time.Second, func() string {
		var err error
		switch entry {
		case 0:
			scheme, serr := c19GetScheme()
			if serr != nil {
				return "BAD-SCHEME"
			}
			_, err = NewTree(scheme).RenderPackage(ctx, pkgDir, opts...)
		case 1:
			scheme, serr := c19GetScheme()
			if serr != nil {
				return "BAD-SCHEME"
			}
			err = NewValidate(scheme).ValidatePackage(ctx, WithPath(pkgDir))
		case 2:
			_, err = NewUpdate(WithDigestResolver{Resolver: c19FakeResolver{}}).GenerateLockData(ctx, pkgDir)
		case 3:
			err = NewBuild(WithDigestResolver{Resolver: c19FakeResolver{}}).BuildFromSource(ctx, pkgDir,
				WithOutputPath(filepath.Join(filepath.Dir(pkgDir), "out.tar")), WithTags{"quay.io/verif/pkg:v1"})
		}
		if err == nil {
			res = "ok"
		} else {
			// where it ended (statistics only): the error message up to its second colon, letters only
			parts := strings.SplitN(err.Error(), ":", 3)
			if len(parts) > 2 {
				parts = parts[:2]
			}
			why = strings.Map(func(r rune) rune {
				if r >= 'a' && r <= 'z' || r >= 'A' && r <= 'Z' {
					return r
				}
				return '_'
			}, strings.Join(parts, ":"))
			if len(why) > 60 {
				why = why[:60]
			}
		}
		return "nopanic"
	})
	tags = []string{"cliX", "exploration", "cliX:" + c19Entries[entry] + ":" + res, "cliX:" + strings.SplitN(out, " ", 2)[0]}
	if why != "" {
		tags = append(tags, "why:"+c19Entries[entry]+":"+why)
	}
	return out, tags
}

// ---------------------------------------------------------------- generators

var c19KeyPool = []string{"greeting", "name", "size"}

func c19TplVariants(withPkg bool) []verifc19.CliTpl {
	pkgs := []string{"ns"}
	if withPkg {
		pkgs = []string{"", "ns", "nons"}
	}
	var out []verifc19.CliTpl
	for _, p := range pkgs {
		out = append(out,
			verifc19.CliTpl{Cfg: "", CK: []string{}, Pkg: p},
			verifc19.CliTpl{Cfg: "obj", CK: []string{"greeting", "name"}, Pkg: p})
	}
	return out
}

// c19TplLists: no template, one template, two templates (distinct names and the same name twice;
// the loops of getConfig / getTemplateContext visit EVERY template with the selected name).
func c19TplLists(vs []verifc19.CliTpl) [][]verifc19.CliTpl {
	out := [][]verifc19.CliTpl{{}}
	named := func(t verifc19.CliTpl, n string) verifc19.CliTpl { t.Name = n; return t }
	for _, a := range vs {
		out = append(out, []verifc19.CliTpl{named(a, "t1")})
	}
	for _, a := range vs {
		for _, b := range vs {
			if b.Cfg == "obj" {
				b.CK = []string{"name", "size"} // another key set than the first template: merging is visible
			}
			out = append(out, []verifc19.CliTpl{named(a, "t1"), named(b, "t2")})
			out = append(out, []verifc19.CliTpl{named(a, "t1"), named(b, "t1")})
		}
	}
	return out
}

type c19Schema struct {
	on    bool
	props []verifc19.CliProp
}

var c19Schemas = []c19Schema{
	{false, []verifc19.CliProp{}},
	{true, []verifc19.CliProp{{N: "greeting"}, {N: "name"}}},
	{true, []verifc19.CliProp{{N: "greeting", D: true}, {N: "name"}}},
	{true, []verifc19.CliProp{{N: "greeting"}, {N: "name", R: true}}},
	{true, []verifc19.CliProp{{N: "greeting", D: true, R: true}, {N: "name"}}},
	{true, []verifc19.CliProp{{N: "size", D: true}}},
	{true, []verifc19.CliProp{}},
}

type c19CP struct {
	kind string
	keys []string
}

var c19CPs = []c19CP{
	{"", nil}, {"missing", nil}, {"obj", []string{}}, {"obj", []string{"greeting"}}, {"obj", []string{"name", "other"}},
	{"null", nil}, {"empty", nil}, {"comment", nil}, {"scalar", nil}, {"list", nil}, {"bad", nil},
}

var c19Scopes = [][]string{{"Namespaced", "Cluster"}, {"Namespaced"}, {"Cluster"}}

func c19XBlob(x c19X) string {
	b, err := json.Marshal(x)
	if err != nil {
		panic(err)
	}
	return string(b)
}

const c19RichManifest = `apiVersion: manifests.package-operator.run/v1alpha1
kind: PackageManifest
metadata:
  name: rich
spec:
  scopes: [Cluster, Namespaced]
  phases:
  - name: deploy
  - name: later
  availabilityProbes:
  - probes:
    - condition: {type: Available, status: "True"}
    selector:
      kind: {group: apps, kind: Deployment}
  config:
    openAPIV3Schema:
      type: object
      properties:
        greeting: {type: string, default: hello}
        size: {type: integer, default: 3, minimum: 1}
        name: {type: string}
        flag: {type: boolean, nullable: true, default: true}
        nested:
          type: object
          default: {}
          properties:
            inner: {type: string, default: in}
            list: {type: array, items: {type: string}, default: [a]}
      required: [name]
  images:
  - name: web
    image: quay.io/x/y:v1
test:
  template:
  - name: t1
    context:
      package:
        metadata: {name: inst, namespace: ns}
      config: {name: abc, size: 2}
  - name: t2
    context:
      package:
        metadata: {name: inst}
      config: {name: x}
  - name: t3
    context:
      config: {name: zed, nested: {inner: q}}
`

const c19Lock = `apiVersion: manifests.package-operator.run/v1alpha1
kind: PackageManifestLock
metadata:
  creationTimestamp: "2024-01-01T00:00:00Z"
spec:
  images:
  - name: web
    image: quay.io/x/y:v1
    digest: sha256:0000000000000000000000000000000000000000000000000000000000000000
`

const c19TemplatedObject = `apiVersion: v1
kind: ConfigMap
metadata:
  name: "{{ .package.metadata.name }}-cm"
  annotations:
    package-operator.run/phase: deploy
data:
  greeting: {{ .config.greeting | quote }}
  size: "{{ .config.size }}"
  inner: "{{ .config.nested.inner }}"
  image: "{{ .images.web }}"
`

// reads only what every render context has
const c19SafeTemplatedObject = `apiVersion: v1
kind: ConfigMap
metadata:
  name: safe-cm
  annotations:
    package-operator.run/phase: deploy
data:
  pkg: {{ .package.metadata.name | quote }}
  cfg: {{ .config | toJson | quote }}
  images: {{ .images | toJson | quote }}
`

func TestVerifC19Cli(t *testing.T) {
	r := verifkit.Open(t, "C19")
	defer r.Close()
	g := verifc19.G{R: r.Rng}
	base, err := os.MkdirTemp("", "verif-c19-cli-")
	if err != nil {
		t.Fatal(err)
	}
	defer os.RemoveAll(base)

	type item struct {
		line  string
		extra []string
		out   string
		tags  []string
	}
	seen := map[string]bool{}
	var batch []*item
	add := func(line string, extra ...string) {
		if seen[line] {
			return
		}
		seen[line] = true
		batch = append(batch, &item{line: line, extra: extra})
	}
	// flush runs the batch on all cores (each scenario has its own directory, Guard recovers on the
	// goroutine that runs the scenario) and emits the lines in generation order.
	flush := func() {
		workers := runtime.GOMAXPROCS(0)
		var wg sync.WaitGroup
		ch := make(chan *item)
		for w := 0; w < workers; w++ {
			wg.Add(1)
			go func() {
				defer wg.Done()
				for it := range ch {
					var s verifc19.Scn
					if err := json.Unmarshal([]byte(it.line), &s); err != nil {
						it.out = "BAD-SCENARIO-JSON"
						continue
					}
					switch s.Fn {
					case "tree":
						it.out, it.tags = c19RunTree(base, s)
					case "cliX":
						it.out, it.tags = c19RunX(base, s)
					default:
						it.out = "BAD-FN"
					}
				}
			}()
		}
		for _, it := range batch {
			ch <- it
		}
		close(ch)
		wg.Wait()
		for _, it := range batch {
			r.Emit(it.line, it.out, append(it.tags, it.extra...)...)
		}
		batch = nil
	}
	marshal := func(s verifc19.Scn) string {
		b, err := json.Marshal(s)
		if err != nil {
			t.Fatal(err)
		}
		return string(b)
	}
	addTree := func(c verifc19.CliScn, extra ...string) {
		add(marshal(verifc19.Scn{Fn: "tree", Cli: &c}), extra...)
	}
	addX := func(x c19X, entry int, extra ...string) {
		add(marshal(verifc19.Scn{Fn: "cliX", Blob: verifc19.Ptr(c19XBlob(x)), N: verifc19.Ptr(int64(entry))}), extra...)
	}

	for _, l := range r.Fixed() {
		add(l, "corpus")
	}
	flush()
	if r.ReplayOnly() {
		return
	}

	tcs := []string{"", "t1", "t2", "zz"}
	row := func(scopes []string, sc c19Schema, tpls []verifc19.CliTpl, cp c19CP, tc string, cluster bool) verifc19.CliScn {
		keys := cp.keys
		if keys == nil {
			keys = []string{}
		}
		return verifc19.CliScn{Scopes: scopes, Schema: sc.on, Props: sc.props, Tpls: tpls, CP: cp.kind, CPK: keys, TC: tc, Cluster: cluster}
	}
	// ---- table A: config resolution x schema (context.package fixed, both scopes allowed)
	listsA := c19TplLists(c19TplVariants(false))
	for _, sc := range c19Schemas {
		for _, tpls := range listsA {
			for _, cp := range c19CPs {
				for _, tc := range tcs {
					for _, cluster := range []bool{false, true} {
						addTree(row(c19Scopes[0], sc, tpls, cp, tc, cluster), "tableA")
					}
				}
			}
		}
	}
	// ---- table B: template context / scope resolution (context.package absent | with | without
	// namespace) x spec.scopes x --cluster, with the config-resolution dimensions reduced in the
	// quick tier; the thorough tier takes the full product.
	listsB := c19TplLists(c19TplVariants(true))
	schemasB, cpsB := []c19Schema{c19Schemas[0], c19Schemas[2]}, []c19CP{c19CPs[0], c19CPs[3]}
	if r.Thorough() {
		schemasB, cpsB = c19Schemas, c19CPs
	}
	for _, scopes := range c19Scopes {
		for _, sc := range schemasB {
			for _, tpls := range listsB {
				if !r.Thorough() && len(tpls) == 2 && tpls[0].Cfg != tpls[1].Cfg && tpls[0].Pkg != tpls[1].Pkg {
					continue
				}
				for _, cp := range cpsB {
					for _, tc := range tcs {
						for _, cluster := range []bool{false, true} {
							addTree(row(scopes, sc, tpls, cp, tc, cluster), "tableB")
						}
					}
				}
			}
		}
	}
	// ---- table C: context.config written as `null` or as a scalar (manifest loading decides)
	for _, sc := range []c19Schema{c19Schemas[0], c19Schemas[2]} {
		for _, kind := range []string{"null", "scalar"} {
			for _, second := range []string{"", "obj"} {
				tpls := []verifc19.CliTpl{{Name: "t1", Cfg: kind, CK: []string{}, Pkg: "ns"}, {Name: "t1", Cfg: second, CK: []string{}, Pkg: "ns"}}
				for _, tc := range tcs {
					addTree(row(c19Scopes[0], sc, tpls, c19CPs[0], tc, false), "tableC")
					addTree(row(c19Scopes[0], sc, tpls[:1], c19CPs[0], tc, false), "tableC")
				}
			}
		}
	}
	flush()

	// ---- the other entry points on the table's packages
	for _, sc := range c19Schemas {
		for _, tpls := range listsB {
			if !r.Thorough() && len(tpls) == 2 && tpls[0].Pkg != tpls[1].Pkg {
				continue
			}
			c := row(c19Scopes[0], sc, tpls, c19CPs[0], "", false)
			x := c19X{Files: map[string]string{"manifest.yaml": c19Manifest(&c), "static.yaml": c19StaticObject, "safe.yaml.gotmpl": c19SafeTemplatedObject}}
			for e := 1; e < len(c19Entries); e++ {
				addX(x, e, "table-pkg")
			}
			for _, tc := range tcs {
				x.TC = tc
				addX(x, 0, "table-pkg")
			}
		}
	}
	flush()

	// ---- seeded random packages
	junk := []string{"\n", "---\n", ":", " ", "  ", "- ", "{", "}", "[", "]", "|", ">", "&a ", "*a", "\"", "'", "#", "null", "~", "? ",
		"default: ", "default: null", "default: {}", "nullable: true", "type: ", "properties: ", "required: ", "items: ", "config: ", "config: null",
		"config: 5", "config: []", "context: ", "context: null", "package: ", "package: null", "template: ", "name: ", "name: t1", "test: ", "test: null",
		"additionalProperties: ", "x-kubernetes-preserve-unknown-fields: true", "scopes: ", "Cluster", "9999999999999999999999", "{{", "}}", "{{ .config }}"}
	mutate := func(src string, k int) string {
		b := []byte(src)
		for ; k > 0; k-- {
			pos := g.R.Intn(len(b) + 1)
			switch g.R.Intn(5) {
			case 0:
				end := pos + g.R.Intn(16)
				if end > len(b) {
					end = len(b)
				}
				b = append(append([]byte{}, b[:pos]...), b[end:]...)
			case 1, 2:
				jk := junk[g.R.Intn(len(junk))]
				b = append(append(append([]byte{}, b[:pos]...), jk...), b[pos:]...)
			case 3:
				if pos < len(b) {
					b[pos] ^= byte(1 << uint(g.R.Intn(7)))
				}
			case 4:
				ls := strings.Split(string(b), "\n")
				i := g.R.Intn(len(ls))
				if g.P(0.5) {
					ls = append(ls[:i], ls[i+1:]...)
				} else {
					ls = append(ls[:i], append([]string{strings.Repeat(" ", g.R.Intn(8)) + strings.TrimSpace(ls[i])}, ls[i:]...)...)
				}
				b = []byte(strings.Join(ls, "\n"))
			}
			if len(b) == 0 {
				b = []byte("a")
			}
		}
		return strings.ToValidUTF8(string(b), "?")
	}
	var schemaOf func(depth int) map[string]any
	valueOf := func(typ string) any {
		switch typ {
		case "string":
			return g.Pick("", "x", "hello")
		case "integer":
			return g.Pick(int64(0), int64(3), int64(-1))
		case "number":
			return g.Pick(1.5, int64(2))
		case "boolean":
			return g.P(0.5)
		case "object":
			return g.Pick(map[string]any{}, map[string]any{"a": "x"}, map[string]any{"greeting": int64(1)})
		case "array":
			return g.Pick([]any{}, []any{"a"}, []any{int64(1), "b"})
		}
		return nil
	}
	schemaOf = func(depth int) map[string]any {
		typ := g.Str("string", "string", "integer", "boolean", "number", "object", "array")
		if depth <= 0 && (typ == "object" || typ == "array") {
			typ = "string"
		}
		s := map[string]any{"type": typ}
		if g.P(0.45) {
			switch {
			case g.P(0.8):
				s["default"] = valueOf(typ)
			case g.P(0.5):
				s["default"] = nil
			default:
				s["default"] = g.JSON(1) // possibly of the wrong type
			}
		}
		if g.P(0.15) {
			s["nullable"] = true
		}
		switch typ {
		case "object":
			props := map[string]any{}
			for i := g.R.Intn(4); i > 0; i-- {
				props[g.Str("a", "b", "greeting", "name", "size", "nested")] = schemaOf(depth - 1)
			}
			if len(props) > 0 || g.P(0.5) {
				s["properties"] = props
			}
			var req []any
			for k := range props {
				if g.P(0.25) {
					req = append(req, k)
				}
			}
			if g.P(0.1) {
				req = append(req, "ghost")
			}
			if len(req) > 0 {
				sort.Slice(req, func(i, j int) bool { return req[i].(string) < req[j].(string) })
				s["required"] = req
			}
			switch {
			case g.P(0.1):
				s["additionalProperties"] = schemaOf(depth - 1)
				delete(s, "properties")
			case g.P(0.1):
				s["x-kubernetes-preserve-unknown-fields"] = true
			}
		case "array":
			s["items"] = schemaOf(depth - 1)
		}
		return s
	}
	configOf := func() any {
		switch {
		case g.P(0.6):
			m := map[string]any{}
			for i := g.R.Intn(4); i > 0; i-- {
				k := g.Str("a", "b", "greeting", "name", "size", "nested")
				if g.P(0.6) {
					m[k] = valueOf(g.Str("string", "integer", "boolean", "object", "array"))
				} else {
					m[k] = g.JSON(2)
				}
			}
			return m
		case g.P(0.5):
			return map[string]any{}
		default:
			return g.JSON(1)
		}
	}
	randomManifest := func() (string, []string) {
		top := schemaOf(2)
		top["type"] = "object"
		if _, ok := top["properties"]; !ok && g.P(0.8) {
			top["properties"] = map[string]any{"greeting": map[string]any{"type": "string", "default": "hello"}, "size": schemaOf(1)}
			delete(top, "additionalProperties")
		}
		if g.P(0.6) {
			delete(top, "default")
		}
		spec := map[string]any{
			"scopes": g.Pick([]any{"Cluster", "Namespaced"}, []any{"Namespaced"}, []any{"Cluster"}),
			"phases": []any{map[string]any{"name": "deploy"}, map[string]any{"name": "later"}},
			"availabilityProbes": []any{map[string]any{
				"probes":   []any{map[string]any{"condition": map[string]any{"type": "Available", "status": "True"}}},
				"selector": map[string]any{"kind": map[string]any{"group": "apps", "kind": "Deployment"}},
			}},
		}
		if !g.P(0.15) {
			spec["config"] = map[string]any{"openAPIV3Schema": top}
		}
		if g.P(0.4) {
			spec["images"] = []any{map[string]any{"name": "web", "image": g.Str("quay.io/x/y:v1", "quay.io/fail/y:v1", "UPPER/bad ref", "")}}
		}
		var tpls []any
		var names []string
		for i := g.R.Intn(4); i > 0; i-- {
			name := g.Str("t1", "t1", "t2", "t3")
			names = append(names, name)
			c := map[string]any{}
			if g.P(0.6) {
				c["config"] = configOf()
			}
			switch g.R.Intn(4) {
			case 0:
				c["package"] = map[string]any{"metadata": map[string]any{"name": "n", "namespace": "ns"}}
			case 1:
				c["package"] = map[string]any{"metadata": map[string]any{"name": "n"}}
			case 2:
				c["package"] = g.Pick(nil, map[string]any{}, map[string]any{"metadata": nil})
			}
			tp := map[string]any{"name": name}
			if !g.P(0.1) {
				tp["context"] = c
			}
			tpls = append(tpls, tp)
		}
		m := map[string]any{"apiVersion": "manifests.package-operator.run/v1alpha1", "kind": "PackageManifest",
			"metadata": map[string]any{"name": "rnd"}, "spec": spec}
		if len(tpls) > 0 || g.P(0.3) {
			m["test"] = map[string]any{"template": tpls}
		}
		b, _ := json.Marshal(m)
		return string(b), names
	}
	richNoImages := strings.Replace(c19RichManifest, "  images:\n  - name: web\n    image: quay.io/x/y:v1\n", "", 1)
	n := r.Pick(1500, 40000)
	for i := 0; i < n; i++ {
		x := c19X{Files: map[string]string{"static.yaml": c19StaticObject}}
		names := []string{"t1", "t2", "t3"}
		tag := "rnd-structured"
		entry := 0
		if g.P(0.4) {
			entry = 1 + g.R.Intn(3)
		}
		rich := false
		switch g.R.Intn(4) {
		case 0:
			x.Files["manifest.yaml"] = mutate(c19RichManifest, g.R.Intn(4)+1)
			tag, rich = "rnd-mutated", true
		case 1:
			x.Files["manifest.yaml"] = c19RichManifest
			tag, rich = "rnd-rich", true
		default:
			x.Files["manifest.yaml"], names = randomManifest()
		}
		if rich && entry == 3 && g.P(0.7) {
			// `build` runs without a lock file (no registry): a manifest without images can pass
			x.Files["manifest.yaml"] = richNoImages
			if tag == "rnd-mutated" {
				x.Files["manifest.yaml"] = mutate(richNoImages, g.R.Intn(3)+1)
			}
			x.Files["safe.yaml.gotmpl"] = c19SafeTemplatedObject
			rich = false
		}
		switch {
		case rich && g.P(0.8):
			x.Files["obj.yaml.gotmpl"] = c19TemplatedObject
			if g.P(0.2) {
				x.Files["obj.yaml.gotmpl"] = mutate(c19TemplatedObject, g.R.Intn(3)+1)
			}
		case g.P(0.6):
			x.Files["safe.yaml.gotmpl"] = c19SafeTemplatedObject
		case g.P(0.3):
			x.Files["obj.yaml.gotmpl"] = c19TemplatedObject
		}
		if rich && g.P(0.8) || g.P(0.1) {
			x.Files["manifest.lock.yaml"] = c19Lock
			if g.P(0.15) {
				x.Files["manifest.lock.yaml"] = mutate(c19Lock, g.R.Intn(3)+1)
			}
		}
		switch g.R.Intn(6) {
		case 0:
			x.CPMode = "missing"
		case 1:
			x.CPMode = "file"
			b, _ := json.Marshal(configOf())
			x.CPData = string(b)
		case 2:
			x.CPMode = "file"
			x.CPData = mutate("greeting: hi\nname: abc\nsize: 2\nnested:\n  inner: x\n", g.R.Intn(4))
		}
		if g.P(0.6) {
			x.TC = g.Str(append(names, "zz", "t1")...)
		}
		x.Cluster = g.P(0.3)
		addX(x, entry, tag)
	}
	flush()
}
