package objectsetphases

// Phase-level correspondence harness (the four ObjectSetPhase controller flavours:
// same-cluster / multi-cluster x namespaced / cluster).  Multi-cluster flavours use the
// annotation owner strategy.

import (
	"encoding/json"
	"testing"

	"github.com/go-logr/logr"
	"k8s.io/apimachinery/pkg/runtime"
	"k8s.io/apimachinery/pkg/types"

	corev1alpha1 "package-operator.run/apis/core/v1alpha1"
	"package-operator.run/internal/adapters"
	"package-operator.run/internal/controllers"
	"package-operator.run/internal/verifkit"
	"package-operator.run/internal/verifphase"
)

func verifScheme() *runtime.Scheme {
	s := runtime.NewScheme()
	if err := corev1alpha1.AddToScheme(s); err != nil {
		panic(err)
	}
	return s
}

func VerifPhaseFlavours() []verifphase.Flavour {
	mk := func(name string, cluster, multi bool) verifphase.Flavour {
		kind := "ObjectSetPhase"
		osFactory := adapters.NewObjectSet
		if cluster {
			kind = "ClusterObjectSetPhase"
			osFactory = adapters.NewClusterObjectSet
		}
		return verifphase.Flavour{
			Name: name, OwnerKind: kind, NSOwner: !cluster,
			Build: func(env *verifphase.Env) verifphase.PhaseRec {
				c := env.Store.Client()
				var ctl *GenericObjectSetPhaseController
				switch {
				case multi && cluster:
					ctl = NewMultiClusterClusterObjectSetPhaseController(logr.Discard(), env.Scheme, env.Cache, c, "default", c, c, env.Store.Mapper())
				case multi:
					ctl = NewMultiClusterObjectSetPhaseController(logr.Discard(), env.Scheme, env.Cache, c, "default", c, c, env.Store.Mapper())
				case cluster:
					ctl = NewSameClusterClusterObjectSetPhaseController(logr.Discard(), env.Scheme, env.Cache, c, "default", c, env.Store.Mapper())
				default:
					ctl = NewSameClusterObjectSetPhaseController(logr.Discard(), env.Scheme, env.Cache, c, "default", c, env.Store.Mapper())
				}
				for _, r := range ctl.reconciler {
					if pr, ok := r.(*objectSetPhaseReconciler); ok {
						return pr.phaseReconciler
					}
				}
				panic("objectSetPhaseReconciler not found in controller")
			},
			NewOwner: func(env *verifphase.Env, o verifphase.OwnerSpec) controllers.PhaseObjectOwner {
				var a genericObjectSetPhase
				if cluster {
					p := newGenericClusterObjectSetPhase(env.Scheme).(*GenericClusterObjectSetPhase)
					p.Spec.Revision = o.Rev
					p.Spec.Paused = o.Paused
					a = p
				} else {
					p := newGenericObjectSetPhase(env.Scheme).(*GenericObjectSetPhase)
					p.Spec.Revision = o.Rev
					p.Spec.Paused = o.Paused
					a = p
				}
				co := a.ClientObject()
				co.SetNamespace(o.NS)
				co.SetName(o.Name)
				co.SetUID(types.UID(o.UID))
				co.SetGeneration(1)
				if l := o.Labels(); len(l) > 0 {
					co.SetLabels(l)
				}
				if a := o.Annotations(); len(a) > 0 {
					co.SetAnnotations(a)
				}
				return a.(controllers.PhaseObjectOwner)
			},
			NewPrev: func(env *verifphase.Env, ns string, p verifphase.PrevSpec) controllers.PreviousObjectSet {
				a := osFactory(env.Scheme)
				if p.Name != "" {
					o := a.ClientObject()
					o.SetNamespace(ns)
					o.SetName(p.Name)
					o.SetUID(types.UID(p.UID))
					if len(p.Labels) > 0 {
						o.SetLabels(p.Labels)
					}
					var rp []corev1alpha1.RemotePhaseReference
					for _, r := range p.Remotes {
						rp = append(rp, corev1alpha1.RemotePhaseReference{Name: r[0], UID: types.UID(r[1])})
					}
					a.SetRemotePhases(rp)
				}
				return a
			},
		}
	}
	return []verifphase.Flavour{
		mk("samecluster-phase", false, false), mk("samecluster-clusterphase", true, false),
		mk("multicluster-phase", false, true), mk("multicluster-clusterphase", true, true),
	}
}

func TestVerifPhase(t *testing.T) {
	r := verifkit.Open(t, "PHASE")
	defer r.Close()
	scheme := verifScheme()
	fls := map[string]verifphase.Flavour{}
	var order []verifphase.Flavour
	for _, f := range VerifPhaseFlavours() {
		fls[f.Name] = f
		order = append(order, f)
	}
	run := func(s verifphase.Scn) {
		fl, ok := fls[s.Flavour]
		if !ok {
			return
		}
		out := verifkit.Guard(func() string { return verifphase.Exec(scheme, fl, s) })
		r.Emit(s, out, verifphase.Tags(s, out)...)
	}
	for _, line := range r.Fixed() {
		var s verifphase.Scn
		if err := json.Unmarshal([]byte(line), &s); err != nil {
			t.Fatalf("bad scenario: %v", err)
		}
		run(s)
	}
	if r.ReplayOnly() {
		return
	}
	for _, fl := range order {
		// abstract decision table, every row realised by several concrete objects that differ in
		// everything the model claims to be irrelevant (labels, annotations, controller kind / identity ...)
		for _, s := range verifphase.TableX(fl, r.Rng, r.Pick(4, 8)) {
			run(s)
		}
		// controller realisation x instance / package label relation x collisionProtection x revision, exhaustive
		for _, s := range verifphase.IrrelevanceTable(fl, r.Pick(0, 1) == 1) {
			run(s)
		}
		for _, s := range verifphase.PreflightTable(fl) {
			run(s)
		}
		n := r.Pick(800, 10000)
		for i := 0; i < n; i++ {
			run(verifphase.Random(r.Rng, fl))
		}
	}
	// the REST mapper fails (transient discovery error, not NoMatch) for some kinds during the pass:
	// exhaustive table + random phases.  (After everything else: the scenarios above stay what they were.)
	for _, fl := range order {
		for _, s := range verifphase.MapFaultTable(fl) {
			run(s)
		}
		n := r.Pick(300, 2000)
		for i := 0; i < n; i++ {
			run(verifphase.RandomMapFault(r.Rng, fl))
		}
	}
}
