package objectsets

// Phase-level correspondence harness (ObjectSet / ClusterObjectSet flavours).
// Builds the REAL controllers through their exported constructors on top of verifstore and
// drives the PhaseReconciler they compose (real preflight composition, real adoption checker,
// real patcher, real native owner strategy).

import (
	"encoding/json"
	"testing"

	"github.com/go-logr/logr"
	"k8s.io/apimachinery/pkg/runtime"
	"k8s.io/apimachinery/pkg/types"

	corev1alpha1 "package-operator.run/apis/core/v1alpha1"
	"package-operator.run/internal/adapters"
	"package-operator.run/internal/controllers"
	"package-operator.run/internal/verifkit"
	"package-operator.run/internal/verifphase"
)

func verifScheme() *runtime.Scheme {
	s := runtime.NewScheme()
	if err := corev1alpha1.AddToScheme(s); err != nil {
		panic(err)
	}
	return s
}

func verifFillObjectSet(a adapters.ObjectSetAccessor, ns, name, uid string, rev int64, paused bool, labels, annotations map[string]string, remotes [][2]string) {
	o := a.ClientObject()
	o.SetNamespace(ns)
	o.SetName(name)
	o.SetUID(types.UID(uid))
	o.SetGeneration(1)
	if len(labels) > 0 {
		o.SetLabels(labels)
	}
	if len(annotations) > 0 {
		o.SetAnnotations(annotations)
	}
	a.SetRevision(rev)
	if paused {
		a.SetPaused()
	}
	var rp []corev1alpha1.RemotePhaseReference
	for _, r := range remotes {
		rp = append(rp, corev1alpha1.RemotePhaseReference{Name: r[0], UID: types.UID(r[1])})
	}
	a.SetRemotePhases(rp)
}

func VerifObjectSetFlavours() []verifphase.Flavour {
	mk := func(name string, cluster bool) verifphase.Flavour {
		factory := adapters.NewObjectSet
		kind := "ObjectSet"
		if cluster {
			factory = adapters.NewClusterObjectSet
			kind = "ClusterObjectSet"
		}
		return verifphase.Flavour{
			Name: name, OwnerKind: kind, NSOwner: !cluster,
			Build: func(env *verifphase.Env) verifphase.PhaseRec {
				c := env.Store.Client()
				var ctl *GenericObjectSetController
				if cluster {
					ctl = NewClusterObjectSetController(c, logr.Discard(), env.Scheme, env.Cache, c, nil, env.Store.Mapper())
				} else {
					ctl = NewObjectSetController(c, logr.Discard(), env.Scheme, env.Cache, c, nil, env.Store.Mapper())
				}
				for _, r := range ctl.reconciler {
					if pr, ok := r.(*objectSetPhasesReconciler); ok {
						return pr.phaseReconciler
					}
				}
				panic("objectSetPhasesReconciler not found in controller")
			},
			NewOwner: func(env *verifphase.Env, o verifphase.OwnerSpec) controllers.PhaseObjectOwner {
				a := factory(env.Scheme)
				verifFillObjectSet(a, o.NS, o.Name, o.UID, o.Rev, o.Paused, o.Labels(), o.Annotations(), nil)
				return a
			},
			NewPrev: func(env *verifphase.Env, ns string, p verifphase.PrevSpec) controllers.PreviousObjectSet {
				a := factory(env.Scheme)
				if p.Name != "" {
					verifFillObjectSet(a, ns, p.Name, p.UID, 0, false, p.Labels, nil, p.Remotes)
				}
				return a
			},
		}
	}
	return []verifphase.Flavour{mk("objectset", false), mk("clusterobjectset", true)}
}

func TestVerifPhase(t *testing.T) {
	r := verifkit.Open(t, "PHASE")
	defer r.Close()
	scheme := verifScheme()
	fls := map[string]verifphase.Flavour{}
	var order []verifphase.Flavour
	for _, f := range VerifObjectSetFlavours() {
		fls[f.Name] = f
		order = append(order, f)
	}
	run := func(s verifphase.Scn) {
		fl, ok := fls[s.Flavour]
		if !ok {
			return // scenario for a flavour served by another harness
		}
		out := verifkit.Guard(func() string { return verifphase.Exec(scheme, fl, s) })
		r.Emit(s, out, verifphase.Tags(s, out)...)
	}
	for _, line := range r.Fixed() {
		var s verifphase.Scn
		if err := json.Unmarshal([]byte(line), &s); err != nil {
			t.Fatalf("bad scenario: %v", err)
		}
		run(s)
	}
	if r.ReplayOnly() {
		return
	}
	for _, fl := range order {
		// abstract decision table, every row realised by several concrete objects that differ in
		// everything the model claims to be irrelevant (labels, annotations, controller kind / identity ...)
		for _, s := range verifphase.TableX(fl, r.Rng, r.Pick(4, 8)) {
			run(s)
		}
		// controller realisation x instance / package label relation x collisionProtection x revision, exhaustive
		for _, s := range verifphase.IrrelevanceTable(fl, r.Pick(0, 1) == 1) {
			run(s)
		}
		for _, s := range verifphase.PreflightTable(fl) {
			run(s)
		}
		n := r.Pick(1500, 20000)
		for i := 0; i < n; i++ {
			run(verifphase.Random(r.Rng, fl))
		}
	}
	// the REST mapper fails (transient discovery error, not NoMatch) for some kinds during the pass:
	// exhaustive table + random phases.  (After everything else: the scenarios above stay what they were.)
	for _, fl := range order {
		for _, s := range verifphase.MapFaultTable(fl) {
			run(s)
		}
		n := r.Pick(300, 2000)
		for i := 0; i < n; i++ {
			run(verifphase.RandomMapFault(r.Rng, fl))
		}
	}
}
