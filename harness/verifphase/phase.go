// Package verifphase is the shared scenario machinery for the phase-level correspondence
// harnesses (injected by overlay).  It runs the REAL controllers.PhaseReconciler — as composed
// by the real controller constructors — against verifstore on scenarios that are also fed to the
// Lean model (lean/Pko/Model/Phase.lean, driver Pko.Drv.Phase*).
package verifphase

import (
	"context"
	"encoding/json"
	"errors"
	"fmt"
	"os"
	"sigs.k8s.io/controller-runtime/pkg/client/apiutil"
	"sort"
	"strconv"
	"strings"

	apierrors "k8s.io/apimachinery/pkg/api/errors"
	metav1 "k8s.io/apimachinery/pkg/apis/meta/v1"
	"k8s.io/apimachinery/pkg/apis/meta/v1/unstructured"
	"k8s.io/apimachinery/pkg/runtime"
	"k8s.io/apimachinery/pkg/runtime/schema"
	"k8s.io/apimachinery/pkg/types"
	"k8s.io/client-go/discovery"
	"sigs.k8s.io/controller-runtime/pkg/client"

	corev1alpha1 "package-operator.run/apis/core/v1alpha1"
	"package-operator.run/internal/controllers"
	"package-operator.run/internal/preflight"
	internalprobing "package-operator.run/internal/probing"
	"package-operator.run/internal/verifstore"
	"package-operator.run/pkg/probing"
)

const Group = "verif.io"
const PkoGroup = "package-operator.run"
const RevAnn = "package-operator.run/revision"
const OwnersAnn = "package-operator.run/owners"
const PkgLabel = "package-operator.run/package"
const InstLabel = "package-operator.run/instance"

// ---------- scenario (JSON; mirrored by lean/Pko/Drv/PhaseCommon.lean)

type Ref struct {
	Group string `json:"group"`
	Kind  string `json:"kind"`
	Name  string `json:"name"`
	UID   string `json:"uid"`
	Ctrl  bool   `json:"ctrl"`
}

type OwnerSpec struct {
	Kind     string `json:"kind"`
	NS       string `json:"ns"`
	Name     string `json:"name"`
	UID      string `json:"uid"`
	Rev      int64  `json:"rev"`
	Paused   bool   `json:"paused"`
	PkgLabel string `json:"pkgLabel"`
	// optional (additive): the package-instance label and further labels / annotations of the owner.
	// The model claims none of them influences any decision; InstLabel is stamped onto applied objects.
	InstLabel string            `json:"instLabel,omitempty"`
	XLabels   map[string]string `json:"xlabels,omitempty"`
	XAnn      map[string]string `json:"xann,omitempty"`
}

// Labels / Annotations of the owner object as the flavours have to set them.
func (o OwnerSpec) Labels() map[string]string {
	l := map[string]string{}
	for k, v := range o.XLabels {
		l[k] = v
	}
	if o.PkgLabel != "" {
		l[PkgLabel] = o.PkgLabel
	}
	if o.InstLabel != "" {
		l[InstLabel] = o.InstLabel
	}
	if len(l) == 0 {
		return nil
	}
	return l
}

func (o OwnerSpec) Annotations() map[string]string {
	if len(o.XAnn) == 0 {
		return nil
	}
	a := map[string]string{}
	for k, v := range o.XAnn {
		a[k] = v
	}
	return a
}

type PrevSpec struct {
	Kind    string      `json:"kind"`
	Name    string      `json:"name"`
	UID     string      `json:"uid"`
	Remotes [][2]string `json:"remotes"`
	// optional (additive): labels of the previous revision object (never read by the model)
	Labels map[string]string `json:"labels,omitempty"`
}

type PObj struct {
	Kind    string `json:"kind"`
	NS      string `json:"ns"`
	Name    string `json:"name"`
	CP      string `json:"cp"` // Prevent | IfNoController | None | "" (=Prevent)
	Payload string `json:"payload"`
	Preset  bool   `json:"preset"` // object spec carries an ownerReference of its own
	DryRun  string `json:"dryRun"` // accept | reject | error
	// Ver is the API version the spec lists the object under ("" = v1).  Versions of one GroupKind
	// are served from the same storage: (kind, ns, name) is ONE object whatever the version.
	Ver string `json:"ver,omitempty"`
	// Status is the `.status` stanza the MANIFEST itself carries (a CR exported from a live cluster with
	// its status left in): "" = none, otherwise "<Ready condition status>[:<observedGeneration>]", e.g.
	// "True", "False", "True:1".  NsThing / ClThing have a status subresource: the API ignores the
	// stanza on every write to the main resource and answers with the stored object, so nothing the
	// probes see may ever come from it (the model does not read the field).
	Status string `json:"status,omitempty"`
	// MAnn are annotations / labels in PKO's own namespace that the MANIFEST itself carries (exported from
	// a live cluster with them left in): "" = none, otherwise "<revision>" — the manifest carries
	// package-operator.run/revision=<revision> and package-operator.run/cache=False.  What PKO writes is its
	// own value, whatever the manifest says (the model does not read the field).
	MAnn string `json:"mann,omitempty"`
}

// ManifestStatus builds the `.status` stanza of a manifest from PObj.Status (nil for "").
func ManifestStatus(spec string) map[string]interface{} {
	if spec == "" {
		return nil
	}
	cond, og, hasOG := strings.Cut(spec, ":")
	st := map[string]interface{}{"conditions": []interface{}{map[string]interface{}{"type": "Ready", "status": cond}}}
	if hasOG {
		n, _ := strconv.ParseInt(og, 10, 64)
		st["observedGeneration"] = n
	}
	return st
}

type SObj struct {
	Kind      string `json:"kind"`
	NS        string `json:"ns"`
	Name      string `json:"name"`
	Owners    []Ref  `json:"owners"`
	AnnOwners []Ref  `json:"annOwners"`
	Rev       string `json:"rev"` // "" absent | digits | anything else = garbage
	Cache     bool   `json:"cache"`
	Pkg       string `json:"pkg"`
	Payload   string `json:"payload"`
	Ready     bool   `json:"ready"`
	ObsGen    int64  `json:"obsGen"` // -1 = not declared
	Finalizer bool   `json:"finalizer"`
	// optional (additive): package-instance label, further labels / annotations (never read by the model)
	Inst    string            `json:"inst,omitempty"`
	XLabels map[string]string `json:"xlabels,omitempty"`
	XAnn    map[string]string `json:"xann,omitempty"`
}

type EnvOp struct {
	At      int    `json:"at"` // applied right before PKO's write number `at` (0-based)
	Op      string `json:"op"` // reown | setRev | setPayload | setReady | delete | recreate | removeFinalizer | relabel
	Kind    string `json:"kind"`
	NS      string `json:"ns"`
	Name    string `json:"name"`
	Owners  []Ref  `json:"owners"`
	Rev     string `json:"rev"`
	Payload string `json:"payload"`
	Ready   bool   `json:"ready"`
	ObsGen  int64  `json:"obsGen"`
	Pkg     string `json:"pkg"`
}

type Scn struct {
	Flavour string     `json:"flavour"`
	Mode    string     `json:"mode"` // reconcile | teardown
	Force   bool       `json:"force"`
	Owner   OwnerSpec  `json:"owner"`
	Prev    []PrevSpec `json:"prev"`
	Class   string     `json:"class"`
	Objects []PObj     `json:"objects"`
	Store   []SObj     `json:"store"`
	Env     []EnvOp    `json:"env"`
	// MapErr (optional, additive): the kinds for which every REST-mapper lookup of THIS pass is answered
	// with a transient error (API discovery degraded) — an error that is NOT "no such kind" (NoMatch).
	// MapErrClass picks the concrete error (MapperError); the model does not read it.
	MapErr      []string `json:"mapErr,omitempty"`
	MapErrClass string   `json:"mapErrClass,omitempty"`
}

// MapErrClasses are the concrete errors a failing REST-mapper lookup is answered with.
var MapErrClasses = []string{"Discovery", "ResourceDiscovery", "Timeout", "ServiceUnavailable", "Plain"}

// MapperError builds the error of a failing REST-mapper lookup: anything but a NoMatch error.
func MapperError(class string, gk schema.GroupKind) error {
	switch class {
	case "Timeout":
		return apierrors.NewTimeoutError("scripted discovery timeout", 1)
	case "ServiceUnavailable":
		return apierrors.NewServiceUnavailable("scripted discovery outage")
	case "Plain":
		return fmt.Errorf("scripted: discovery of %s failed", gk)
	case "ResourceDiscovery":
		// controller-runtime's lazy REST mapper: the discovery round for the group's versions failed (503, timeout)
		e := apiutil.ErrResourceDiscoveryFailed{
			{Group: gk.Group, Version: "v1"}: apierrors.NewServiceUnavailable("the server is currently unable to handle the request"),
		}
		return &e
	}
	// what the (lazy) discovery REST mapper answers while an aggregated API service is down
	return &discovery.ErrGroupDiscoveryFailed{Groups: map[schema.GroupVersion]error{
		{Group: "metrics.k8s.io", Version: "v1beta1"}: errors.New("the server is currently unable to handle the request"),
	}}
}

// MapperFaultFor is the Store.MapperFault hook of a pass: lookups of the listed kinds (group verif.io) fail.
func MapperFaultFor(kinds []string, class string) func(gk schema.GroupKind) error {
	if len(kinds) == 0 {
		return nil
	}
	return func(gk schema.GroupKind) error {
		if gk.Group != Group {
			return nil
		}
		for _, k := range kinds {
			if k == gk.Kind {
				return MapperError(class, gk)
			}
		}
		return nil
	}
}

// ---------- flavours are provided by the in-package tests

type PhaseRec interface {
	ReconcilePhase(ctx context.Context, owner controllers.PhaseObjectOwner, phase corev1alpha1.ObjectSetTemplatePhase,
		probe probing.Prober, previous []controllers.PreviousObjectSet) ([]client.Object, controllers.ProbingResult, error)
	TeardownPhase(ctx context.Context, owner controllers.PhaseObjectOwner, phase corev1alpha1.ObjectSetTemplatePhase) (bool, error)
}

type Env struct {
	Scheme *runtime.Scheme
	Store  *verifstore.Store
	Cache  *verifstore.Cache
}

type Flavour struct {
	Name      string
	Build     func(env *Env) PhaseRec
	NewOwner  func(env *Env, o OwnerSpec) controllers.PhaseObjectOwner
	NewPrev   func(env *Env, ns string, p PrevSpec) controllers.PreviousObjectSet
	OwnerKind string // kind of the owner object of this flavour
	NSOwner   bool   // owner is namespaced
}

func NewEnv(scheme *runtime.Scheme) *Env {
	st := verifstore.New(scheme)
	st.RegisterKind(schema.GroupKind{Group: Group, Kind: "NsThing"}, true)
	st.RegisterKind(schema.GroupKind{Group: Group, Kind: "ClThing"}, false)
	// Ghost is deliberately not registered: no REST mapping
	for _, k := range []string{"ObjectSet", "ObjectSetPhase", "ObjectSlice", "ObjectDeployment"} {
		st.RegisterKind(schema.GroupKind{Group: PkoGroup, Kind: k}, true)
		st.RegisterKind(schema.GroupKind{Group: PkoGroup, Kind: "Cluster" + k}, false)
	}
	return &Env{Scheme: scheme, Store: st, Cache: st.NewCache()}
}

func apiVersion(group string) string {
	switch group {
	case "":
		return "v1"
	case PkoGroup:
		return PkoGroup + "/v1alpha1"
	}
	return group + "/v1"
}

func toOwnerRefs(rs []Ref) []metav1.OwnerReference {
	var out []metav1.OwnerReference
	for _, r := range rs {
		// canonical form = what PKO's own helpers produce: Controller always explicit,
		// BlockOwnerDeletion set on package-operator.run references
		c := r.Ctrl
		o := metav1.OwnerReference{APIVersion: apiVersion(r.Group), Kind: r.Kind, Name: r.Name, UID: types.UID(r.UID), Controller: &c}
		if r.Group == PkoGroup {
			t := true
			o.BlockOwnerDeletion = &t
		}
		out = append(out, o)
	}
	return out
}

type annRef struct {
	APIVersion string `json:"apiVersion"`
	Kind       string `json:"kind"`
	Name       string `json:"name"`
	Namespace  string `json:"namespace"`
	UID        string `json:"uid"`
	Controller *bool  `json:"controller,omitempty"`
}

func annJSON(rs []Ref, ownerNS string) string {
	out := make([]annRef, 0, len(rs))
	for _, r := range rs {
		a := annRef{APIVersion: apiVersion(r.Group), Kind: r.Kind, Name: r.Name, UID: r.UID}
		if r.Name == "own" {
			a.Namespace = ownerNS // canonical: what the annotation strategy itself writes for this owner
		}
		if r.Ctrl {
			t := true
			a.Controller = &t
		}
		out = append(out, a)
	}
	b, _ := json.Marshal(out)
	return string(b)
}

func setStatus(u *unstructured.Unstructured, ready bool, obsGen int64) {
	if !ready && obsGen < 0 {
		unstructured.RemoveNestedField(u.Object, "status")
		return
	}
	st := map[string]interface{}{}
	if obsGen >= 0 {
		st["observedGeneration"] = obsGen
	}
	s := "False"
	if ready {
		s = "True"
	}
	st["conditions"] = []interface{}{map[string]interface{}{"type": "Ready", "status": s}}
	u.Object["status"] = st
}

// BuildFor builds the stored object; ownerNS is the namespace of the PKO owner (canonical annotation form).
func (o SObj) BuildFor(ownerNS string) *unstructured.Unstructured {
	u := &unstructured.Unstructured{Object: map[string]interface{}{}}
	u.SetGroupVersionKind(schema.GroupVersionKind{Group: Group, Version: "v1", Kind: o.Kind})
	u.SetNamespace(o.NS)
	u.SetName(o.Name)
	u.SetOwnerReferences(toOwnerRefs(o.Owners))
	ann := map[string]string{}
	for k, v := range o.XAnn {
		ann[k] = v
	}
	if o.Rev != "" {
		ann[RevAnn] = o.Rev
	}
	if len(o.AnnOwners) > 0 {
		ann[OwnersAnn] = annJSON(o.AnnOwners, ownerNS)
	}
	if len(ann) > 0 {
		u.SetAnnotations(ann)
	}
	lbl := map[string]string{}
	for k, v := range o.XLabels {
		lbl[k] = v
	}
	if o.Cache {
		lbl[verifstore.CacheLabel] = "True"
	}
	if o.Pkg != "" {
		lbl[PkgLabel] = o.Pkg
	}
	if o.Inst != "" {
		lbl[InstLabel] = o.Inst
	}
	if len(lbl) > 0 {
		u.SetLabels(lbl)
	}
	u.Object["spec"] = map[string]interface{}{"v": o.Payload}
	if o.Finalizer {
		u.SetFinalizers([]string{"verif.io/foreign"})
	}
	setStatus(u, o.Ready, o.ObsGen)
	return u
}

// Build turns a scenario phase object into the API type.
func (p PObj) Build() corev1alpha1.ObjectSetObject {
	u := unstructured.Unstructured{Object: map[string]interface{}{}}
	ver := "v1"
	if p.Ver != "" {
		ver = p.Ver
	}
	u.SetGroupVersionKind(schema.GroupVersionKind{Group: Group, Version: ver, Kind: p.Kind})
	u.SetNamespace(p.NS)
	u.SetName(p.Name)
	u.Object["spec"] = map[string]interface{}{"v": p.Payload}
	if st := ManifestStatus(p.Status); st != nil {
		u.Object["status"] = st
	}
	if p.MAnn != "" {
		u.SetAnnotations(map[string]string{"package-operator.run/revision": p.MAnn})
		u.SetLabels(map[string]string{"package-operator.run/cache": "False"})
	}
	if p.Preset {
		u.SetOwnerReferences([]metav1.OwnerReference{{APIVersion: "v1", Kind: "ConfigMap", Name: "preset", UID: "u-preset"}})
	}
	return corev1alpha1.ObjectSetObject{Object: u, CollisionProtection: corev1alpha1.CollisionProtection(p.CP)}
}

// ---------- canonical printing

func uidNum(u types.UID) string { return strings.TrimPrefix(string(u), "uid-") }

func groupOf(apiVersion string) string {
	gv, err := schema.ParseGroupVersion(apiVersion)
	if err != nil {
		return "?"
	}
	return gv.Group
}

func refsStr(rs []metav1.OwnerReference) string {
	var out []string
	for _, r := range rs {
		c := "0"
		if r.Controller != nil && *r.Controller {
			c = "1"
		}
		out = append(out, fmt.Sprintf("%s/%s:%s:%s:%s", groupOf(r.APIVersion), r.Kind, r.Name, r.UID, c))
	}
	return strings.Join(out, ",")
}

func annRefsStr(s string) string {
	if s == "" {
		return ""
	}
	var rs []annRef
	if err := json.Unmarshal([]byte(s), &rs); err != nil {
		return "!garbage"
	}
	var out []string
	for _, r := range rs {
		c := "0"
		if r.Controller != nil && *r.Controller {
			c = "1"
		}
		out = append(out, fmt.Sprintf("%s/%s:%s:%s:%s", groupOf(r.APIVersion), r.Kind, r.Name, r.UID, c))
	}
	return strings.Join(out, ",")
}

func keyStr(k verifstore.Key) string { return k.Kind + "/" + k.Namespace + "/" + k.Name }

func ObjStr(u *unstructured.Unstructured) string {
	rev := u.GetAnnotations()[RevAnn]
	if rev == "" {
		rev = "-"
	} else if _, err := strconv.ParseInt(rev, 10, 64); err != nil {
		rev = "!"
	}
	l := "0"
	if u.GetLabels()[verifstore.CacheLabel] == "True" {
		l = "1"
	}
	payload, _, _ := unstructured.NestedString(u.Object, "spec", "v")
	f, d := "0", "0"
	if len(u.GetFinalizers()) > 0 {
		f = "1"
	}
	if u.GetDeletionTimestamp() != nil {
		d = "1"
	}
	ready := "0"
	conds, _, _ := unstructured.NestedSlice(u.Object, "status", "conditions")
	for _, c := range conds {
		if m, ok := c.(map[string]interface{}); ok && m["type"] == "Ready" && m["status"] == "True" {
			ready = "1"
		}
	}
	og := "-"
	if v, ok, _ := unstructured.NestedInt64(u.Object, "status", "observedGeneration"); ok {
		og = strconv.FormatInt(v, 10)
	}
	return fmt.Sprintf("%s/%s/%s{u=%s,o=[%s],a=[%s],r=%s,l=%s,k=%s,p=%s,g=%d,f=%s,d=%s,s=%s:%s}",
		u.GetKind(), u.GetNamespace(), u.GetName(), uidNum(u.GetUID()), refsStr(u.GetOwnerReferences()),
		annRefsStr(u.GetAnnotations()[OwnersAnn]), rev, l, u.GetLabels()[PkgLabel], payload, u.GetGeneration(), f, d, ready, og)
}

// InstSuffix prints the package-instance label of an object, if it has one (phase streams only:
// ObjStr itself is shared with the controller-level streams and stays as it is).
func InstSuffix(u *unstructured.Unstructured) string {
	if v, ok := u.GetLabels()[InstLabel]; ok {
		return "~i=" + v
	}
	return ""
}

func EventsStr(log []*verifstore.Request) string {
	var out []string
	for _, r := range log {
		if r.DryRun {
			continue
		}
		switch r.Verb {
		case "apply":
			fl := "n"
			if r.Created {
				fl = "+"
			} else if r.Changed {
				fl = "c"
			}
			if r.Err != "" {
				fl = "!" + r.Err
			}
			// recorded revision and number of controllers (native / annotation) of the object as stored
			post := ""
			if r.After != nil {
				rev := r.After.GetAnnotations()[RevAnn]
				if rev == "" {
					rev = "-"
				} else if _, err := strconv.ParseInt(rev, 10, 64); err != nil {
					rev = "!"
				}
				nc := 0
				for _, o := range r.After.GetOwnerReferences() {
					if o.Controller != nil && *o.Controller {
						nc++
					}
				}
				na := strings.Count(annRefsStr(r.After.GetAnnotations()[OwnersAnn])+",", ":1,")
				post = fmt.Sprintf(" r=%s c=%d/%d", rev, nc, na)
			}
			out = append(out, "A "+keyStr(r.Key)+" "+fl+post)
		case "merge":
			fl := "n"
			if r.Changed {
				fl = "c"
			}
			if r.Err != "" {
				fl = "!" + r.Err
			}
			var owners []metav1.OwnerReference
			if md, ok := r.Body["metadata"].(map[string]interface{}); ok {
				b, _ := json.Marshal(md["ownerReferences"])
				_ = json.Unmarshal(b, &owners)
			}
			out = append(out, "M "+keyStr(r.Key)+" "+fl+" ["+refsStr(owners)+"]")
		case "delete":
			res := "ok"
			if r.Err != "" {
				res = r.Err
			}
			// the resourceVersion precondition is not printed (resourceVersions are not comparable
			// between the two stores); whether it was honoured shows in the result (Conflict).
			pu := "-"
			if r.PreUID != nil {
				pu = uidNum(*r.PreUID)
			}
			pr := "norv"
			if r.PreRV != nil {
				pr = "rv"
			}
			out = append(out, fmt.Sprintf("D %s u=%s %s %s", keyStr(r.Key), pu, pr, res))
		default:
			out = append(out, strings.ToUpper(r.Verb)+" "+keyStr(r.Key)+" "+r.Err)
		}
	}
	return strings.Join(out, ";")
}

// ---------- execution

// DryRunError turns a scripted admission verdict ("accept", "reject[:Reason]", "error[:Reason]")
// into the API error a server-side dry run would answer with.
func DryRunError(verdict string, u *unstructured.Unstructured) error {
	gk := schema.GroupKind{Group: Group, Kind: u.GetKind()}
	gr := schema.GroupResource{Group: Group, Resource: strings.ToLower(u.GetKind()) + "s"}
	kind, reason, _ := strings.Cut(verdict, ":")
	switch kind {
	case "reject":
		switch reason {
		case "Forbidden":
			return apierrors.NewForbidden(gr, u.GetName(), errors.New("scripted"))
		case "BadRequest":
			return apierrors.NewBadRequest("scripted")
		case "Conflict":
			return apierrors.NewConflict(gr, u.GetName(), errors.New("scripted"))
		case "Unauthorized":
			return apierrors.NewUnauthorized("scripted")
		case "MethodNotAllowed":
			return apierrors.NewMethodNotSupported(gr, "patch")
		case "TooLarge":
			return apierrors.NewRequestEntityTooLargeError("scripted")
		}
		return apierrors.NewInvalid(gk, u.GetName(), nil)
	case "error":
		switch reason {
		case "TooManyRequests":
			return apierrors.NewTooManyRequests("scripted", 1)
		case "Timeout":
			return apierrors.NewTimeoutError("scripted", 1)
		case "ServerTimeout":
			return apierrors.NewServerTimeout(gr, "patch", 1)
		case "ServiceUnavailable":
			return apierrors.NewServiceUnavailable("scripted")
		case "Gone":
			return apierrors.NewResourceExpired("scripted")
		}
		return apierrors.NewInternalError(errors.New("scripted dry-run failure"))
	}
	return nil
}

// ApplyEnv performs one third-party operation on the store.
func ApplyEnv(env *Env, e EnvOp) {
	k := verifstore.Key{Group: Group, Kind: e.Kind, Namespace: e.NS, Name: e.Name}
	switch e.Op {
	case "reown":
		env.Store.Mutate(k, func(u *unstructured.Unstructured) { u.SetOwnerReferences(toOwnerRefs(e.Owners)) })
	case "setRev":
		env.Store.Mutate(k, func(u *unstructured.Unstructured) {
			a := u.GetAnnotations()
			if a == nil {
				a = map[string]string{}
			}
			if e.Rev == "" {
				delete(a, RevAnn)
			} else {
				a[RevAnn] = e.Rev
			}
			if len(a) == 0 {
				a = nil
			}
			u.SetAnnotations(a)
		})
	case "setPayload":
		env.Store.Mutate(k, func(u *unstructured.Unstructured) { u.Object["spec"] = map[string]interface{}{"v": e.Payload} })
	case "setReady":
		env.Store.Mutate(k, func(u *unstructured.Unstructured) { setStatus(u, e.Ready, e.ObsGen) })
	case "delete":
		env.Store.Remove(k)
	case "recreate":
		if cur := env.Store.Peek(k); cur != nil {
			env.Store.Mutate(k, func(u *unstructured.Unstructured) { u.SetFinalizers(nil) })
			env.Store.Remove(k)
			n := &unstructured.Unstructured{Object: map[string]interface{}{}}
			n.SetGroupVersionKind(cur.GroupVersionKind())
			n.SetNamespace(cur.GetNamespace())
			n.SetName(cur.GetName())
			lbl := map[string]string{}
			for _, l := range []string{verifstore.CacheLabel, PkgLabel, InstLabel} {
				if v, ok := cur.GetLabels()[l]; ok {
					lbl[l] = v
				}
			}
			if len(lbl) > 0 {
				n.SetLabels(lbl)
			}
			n.Object["spec"] = cur.Object["spec"]
			env.Store.Put(n)
		}
	case "removeFinalizer":
		env.Store.Mutate(k, func(u *unstructured.Unstructured) { u.SetFinalizers(nil) })
	case "relabel":
		env.Store.Mutate(k, func(u *unstructured.Unstructured) {
			l := u.GetLabels()
			if l == nil {
				l = map[string]string{}
			}
			if e.Pkg == "" {
				delete(l, PkgLabel)
			} else {
				l[PkgLabel] = e.Pkg
			}
			if len(l) == 0 {
				l = nil
			}
			u.SetLabels(l)
		})
	}
}

func (s Scn) key(kind, ns, name string) verifstore.Key {
	return verifstore.Key{Group: Group, Kind: kind, Namespace: ns, Name: name}
}

// Exec runs one scenario on the real phase reconciler of the flavour and returns the canonical line.
func Exec(scheme *runtime.Scheme, fl Flavour, s Scn) string {
	env := NewEnv(scheme)
	rec := fl.Build(env)
	for _, o := range s.Store {
		env.Store.Put(o.BuildFor(s.Owner.NS))
	}
	if s.Force {
		os.Setenv("PKO_FORCE_ADOPTION", "1")
		defer os.Unsetenv("PKO_FORCE_ADOPTION")
	} else {
		os.Unsetenv("PKO_FORCE_ADOPTION")
	}
	verdicts := map[string]string{}
	for _, p := range s.Objects {
		verdicts[p.Kind+"/"+p.Name] = p.DryRun
	}
	env.Store.DryRunVerdict = func(u *unstructured.Unstructured) error {
		return DryRunError(verdicts[u.GetKind()+"/"+u.GetName()], u)
	}
	env.Store.MapperFault = MapperFaultFor(s.MapErr, s.MapErrClass)
	writes := 0
	env.Store.BeforeWrite = func(*verifstore.Request) {
		for _, e := range s.Env {
			if e.At != writes {
				continue
			}
			ApplyEnv(env, e)
		}
		writes++
	}

	owner := fl.NewOwner(env, s.Owner)
	var prev []controllers.PreviousObjectSet
	for _, p := range s.Prev {
		prev = append(prev, fl.NewPrev(env, s.Owner.NS, p))
	}
	phase := corev1alpha1.ObjectSetTemplatePhase{Name: "p", Class: s.Class}
	for _, p := range s.Objects {
		phase.Objects = append(phase.Objects, p.Build())
	}
	ctx := context.Background()
	var outcome string
	switch s.Mode {
	case "reconcile":
		probe, err := internalprobing.Parse(ctx, []corev1alpha1.ObjectSetProbe{
			{
				Selector: corev1alpha1.ProbeSelector{Kind: &corev1alpha1.PackageProbeKindSpec{Group: Group, Kind: "NsThing"}},
				Probes:   []corev1alpha1.Probe{{Condition: &corev1alpha1.ProbeConditionSpec{Type: "Ready", Status: "True"}}},
			},
			{
				Selector: corev1alpha1.ProbeSelector{Kind: &corev1alpha1.PackageProbeKindSpec{Group: Group, Kind: "ClThing"}},
				Probes:   []corev1alpha1.Probe{{Condition: &corev1alpha1.ProbeConditionSpec{Type: "Ready", Status: "True"}}},
			},
		})
		if err != nil {
			return "HARNESS-ERROR " + err.Error()
		}
		_, res, err := rec.ReconcilePhase(ctx, owner, phase, probe, prev)
		var pe *preflight.Error
		var e1 *controllers.ObjectNotOwnedByPreviousRevisionError
		var e2 *controllers.RevisionCollisionError
		switch {
		case err == nil:
			var names []string
			for _, f := range res.FailedProbes {
				// "<group> <kind> <ns>/<name>: msgs"
				parts := strings.SplitN(f, ":", 2)
				fs := strings.Fields(parts[0])
				nn := fs[len(fs)-1]
				names = append(names, nn[strings.LastIndex(nn, "/")+1:])
			}
			outcome = "ok:" + strings.Join(names, ",")
		case errors.As(err, &pe):
			outcome = "preflight"
		case errors.As(err, &e1):
			outcome = "collision:notowned"
		case errors.As(err, &e2):
			outcome = "collision:rev"
		default:
			outcome = "err"
		}
	case "teardown":
		done, err := rec.TeardownPhase(ctx, owner, phase)
		switch {
		case err != nil:
			outcome = "err"
		case done:
			outcome = "done"
		default:
			outcome = "notdone"
		}
	default:
		return "BAD-MODE"
	}
	var objs []string
	for _, u := range env.Store.Snapshot() {
		objs = append(objs, ObjStr(u)+InstSuffix(u))
	}
	sort.Strings(objs)
	return outcome + " # " + EventsStr(env.Store.Log) + " # " + strings.Join(objs, ";")
}
