package verifphase

import (
	"fmt"
	"math/rand"
	"strings"
)

// Universe of the generators (kept tiny on purpose; the Lean theorems cover the unbounded case,
// the generators only have to reach every branch of the model and realise every abstract row by
// several concrete objects).

func prevKind(fl Flavour) string {
	if fl.NSOwner {
		return "ObjectSet"
	}
	return "ClusterObjectSet"
}

func phaseKindFor(prevKind string) string {
	if strings.HasPrefix(prevKind, "Cluster") {
		return "ClusterObjectSetPhase"
	}
	return "ObjectSetPhase"
}

func ownerNS(fl Flavour) string {
	if fl.NSOwner {
		return "ns1"
	}
	return ""
}

func baseOwner(fl Flavour) OwnerSpec {
	return OwnerSpec{Kind: fl.OwnerKind, NS: ownerNS(fl), Name: "own", UID: "u-own", Rev: 3}
}

func basePrev(fl Flavour) []PrevSpec {
	pk := prevKind(fl)
	return []PrevSpec{
		{Kind: pk, Name: "os1", UID: "u-os1", Remotes: [][2]string{{"ph1", "u-ph1"}}},
		{Kind: pk, Name: "os2", UID: "u-os2"},
	}
}

// controller-state classes of a pre-existing object
var CtrlClasses = []string{"none", "own", "prevDirect", "prevRemote", "undeclared", "foreign", "wrongGroup", "staleUID", "ownPlain", "prev2"}

func ctrlRefs(fl Flavour, class string, variant int) []Ref {
	pk := prevKind(fl)
	extra := []Ref{}
	switch variant % 3 {
	case 1:
		extra = append(extra, Ref{Group: "apps", Kind: "ReplicaSet", Name: "rs", UID: "u-rs"})
	case 2:
		extra = append(extra, Ref{Group: PkoGroup, Kind: pk, Name: "os2", UID: "u-os2"}, Ref{Group: "", Kind: "ConfigMap", Name: "cm", UID: "u-cm"})
	}
	var c []Ref
	switch class {
	case "none":
	case "own":
		c = []Ref{{Group: PkoGroup, Kind: fl.OwnerKind, Name: "own", UID: "u-own", Ctrl: true}}
	case "ownPlain": // we are a plain owner, somebody else (or nobody) controls
		c = []Ref{{Group: PkoGroup, Kind: fl.OwnerKind, Name: "own", UID: "u-own"}}
		if variant%2 == 1 {
			c = append(c, Ref{Group: "apps", Kind: "Deployment", Name: "dep", UID: "u-dep", Ctrl: true})
		}
	case "prevDirect":
		c = []Ref{{Group: PkoGroup, Kind: pk, Name: "os1", UID: "u-os1", Ctrl: true}}
	case "prev2":
		c = []Ref{{Group: PkoGroup, Kind: pk, Name: "os2", UID: "u-os2", Ctrl: true}}
		if variant%3 == 2 {
			extra = extra[1:]
		}
	case "prevRemote":
		c = []Ref{{Group: PkoGroup, Kind: phaseKindFor(pk), Name: "ph1", UID: "u-ph1", Ctrl: true}}
	case "undeclared":
		c = []Ref{{Group: PkoGroup, Kind: pk, Name: "osX", UID: "u-osX", Ctrl: true}}
	case "foreign":
		c = []Ref{{Group: "apps", Kind: "Deployment", Name: "dep", UID: "u-dep", Ctrl: true}}
	case "wrongGroup":
		c = []Ref{{Group: "other.io", Kind: pk, Name: "os1", UID: "u-os1", Ctrl: true}}
	case "staleUID":
		c = []Ref{{Group: PkoGroup, Kind: pk, Name: "os1", UID: "u-old", Ctrl: true}}
	}
	if variant%2 == 0 {
		return append(c, extra...)
	}
	return append(extra, c...)
}

var DryRunVerdicts = []string{"reject", "reject:Forbidden", "reject:BadRequest", "reject:Conflict", "reject:Unauthorized",
	"reject:MethodNotAllowed", "reject:TooLarge", "error", "error:TooManyRequests", "error:Timeout", "error:ServerTimeout",
	"error:ServiceUnavailable", "error:Gone"}
var RevClasses = []string{"", "1", "2", "3", "4", "abc"}
var CPs = []string{"Prevent", "IfNoController", "None", ""}

func isAnnotation(fl Flavour) bool { return strings.HasPrefix(fl.Name, "multicluster") }

func storeObjFor(fl Flavour, p PObj, class, rev string, variant int) SObj {
	ns := p.NS
	if ns == "" {
		ns = ownerNS(fl)
	}
	if p.Kind == "ClThing" {
		ns = ""
	}
	o := SObj{Kind: p.Kind, NS: ns, Name: p.Name, Rev: rev, Cache: variant%4 != 3, Payload: p.Payload, ObsGen: -1}
	refs := ctrlRefs(fl, class, variant)
	if isAnnotation(fl) {
		o.AnnOwners = refs
		if variant%3 == 1 {
			o.Owners = []Ref{{Group: "apps", Kind: "Deployment", Name: "dep", UID: "u-dep", Ctrl: true}}
		}
	} else {
		o.Owners = refs
	}
	if variant%5 == 4 {
		o.Payload = p.Payload + "-drift"
	}
	return o
}

// Table enumerates the adoption decision table exhaustively for one object:
// controller class x revision class x collisionProtection x forced (off / env / label) x mode,
// each row realised by 3 concrete variants.
func Table(fl Flavour) []Scn {
	var out []Scn
	for _, mode := range []string{"reconcile", "teardown"} {
		for _, class := range CtrlClasses {
			for _, rev := range RevClasses {
				for _, cp := range CPs {
					for force := 0; force < 3; force++ {
						if mode == "teardown" && (cp != "Prevent" || force != 0) {
							continue
						}
						for variant := 0; variant < 3; variant++ {
							p := PObj{Kind: "NsThing", Name: []string{"a", "b", "c"}[variant], CP: cp, Payload: "x", DryRun: "accept"}
							if !fl.NSOwner {
								p.NS = "ns2"
							}
							so := storeObjFor(fl, p, class, rev, variant)
							if force == 2 {
								so.Pkg = "package-operator"
							}
							s := Scn{Flavour: fl.Name, Mode: mode, Force: force == 1, Owner: baseOwner(fl), Prev: basePrev(fl),
								Objects: []PObj{p}, Store: []SObj{so}}
							if variant == 2 {
								s.Prev = append([]PrevSpec{{Kind: prevKind(fl), Name: "", UID: ""}}, s.Prev...)
							}
							out = append(out, s)
						}
					}
				}
			}
		}
	}
	return out
}

// PreflightTable: each kind of violating object at every position of a 3-object phase.
func PreflightTable(fl Flavour) []Scn {
	var out []Scn
	viol := []func(p *PObj){
		func(p *PObj) {},
		func(p *PObj) { p.Kind = "Ghost" },
		func(p *PObj) { p.Preset = true },
		func(p *PObj) { p.NS = "ns2" },
		func(p *PObj) { p.Kind = "ClThing" },
		func(p *PObj) { p.Kind = "ClThing"; p.NS = "ns1" },
		func(p *PObj) { p.Kind = "ClThing"; p.NS = "ns2" },
		func(p *PObj) { p.DryRun = "reject" },
		func(p *PObj) { p.DryRun = "reject:Forbidden" },
		func(p *PObj) { p.DryRun = "reject:BadRequest" },
		func(p *PObj) { p.DryRun = "reject:Conflict" },
		func(p *PObj) { p.DryRun = "reject:Unauthorized" },
		func(p *PObj) { p.DryRun = "reject:MethodNotAllowed" },
		func(p *PObj) { p.DryRun = "reject:TooLarge" },
		func(p *PObj) { p.DryRun = "error" },
		func(p *PObj) { p.DryRun = "error:TooManyRequests" },
		func(p *PObj) { p.DryRun = "error:Timeout" },
		func(p *PObj) { p.DryRun = "error:ServerTimeout" },
		func(p *PObj) { p.DryRun = "error:ServiceUnavailable" },
		func(p *PObj) { p.DryRun = "error:Gone" },
		func(p *PObj) { p.NS = "ns1" },
	}
	for _, mode := range []string{"reconcile", "teardown"} {
		// the phase reconcilers are only ever called with Class "" (delegated phases never reach
		// ReconcilePhase in the ObjectSet controller; GetPhase() of the phase adapters drops the class)
		for _, class := range []string{""} {
			for pos := 0; pos < 3; pos++ {
				for vi, v := range viol {
					for _, present := range []bool{false, true} {
						var objs []PObj
						var store []SObj
						for i, n := range []string{"a", "b", "c"} {
							p := PObj{Kind: "NsThing", Name: n, CP: "Prevent", Payload: "x", DryRun: "accept"}
							if !fl.NSOwner {
								p.NS = "ns1"
							}
							if i == pos {
								v(&p)
							}
							objs = append(objs, p)
							if present && p.Kind != "Ghost" {
								store = append(store, storeObjFor(fl, p, "own", "3", 0))
							}
						}
						_ = vi
						out = append(out, Scn{Flavour: fl.Name, Mode: mode, Owner: baseOwner(fl), Prev: basePrev(fl), Class: class, Objects: objs, Store: store})
					}
				}
			}
		}
	}
	return out
}

func pick[T any](r *rand.Rand, xs []T) T { return xs[r.Intn(len(xs))] }

// Random scenario: 1-4 objects, arbitrary states, optional third-party interference.
func Random(r *rand.Rand, fl Flavour) Scn {
	s := Scn{Flavour: fl.Name, Owner: baseOwner(fl), Prev: basePrev(fl)}
	s.Mode = pick(r, []string{"reconcile", "reconcile", "teardown"})
	s.Owner.Rev = int64(1 + r.Intn(4))
	s.Owner.Paused = r.Intn(6) == 0
	if r.Intn(5) == 0 {
		s.Owner.PkgLabel = pick(r, []string{"pkg-a", "package-operator"})
	}
	s.Force = r.Intn(12) == 0
	switch r.Intn(6) {
	case 0:
		s.Prev = nil
	case 1:
		s.Prev = s.Prev[:1]
	case 2:
		s.Prev = append(s.Prev, PrevSpec{Kind: prevKind(fl), Name: "", UID: ""})
	}
	n := 1 + r.Intn(4)
	names := []string{"a", "b", "c", "d"}
	for i := 0; i < n; i++ {
		p := PObj{Kind: "NsThing", Name: names[i], CP: pick(r, CPs), Payload: pick(r, []string{"x", "y"}), DryRun: "accept"}
		if !fl.NSOwner {
			p.NS = pick(r, []string{"ns1", "ns2"})
		}
		switch r.Intn(14) {
		case 0:
			p.Kind = "Ghost"
		case 1:
			p.Kind = "ClThing"
		case 2:
			p.Kind = "ClThing"
			p.NS = pick(r, []string{"ns1", "ns2"})
		case 3:
			p.NS = pick(r, []string{"ns1", "ns2"})
		case 4:
			p.Preset = true
		case 5:
			p.DryRun = pick(r, DryRunVerdicts)
		}
		s.Objects = append(s.Objects, p)
		if r.Intn(4) != 0 && p.Kind != "Ghost" {
			so := storeObjFor(fl, p, pick(r, CtrlClasses), pick(r, RevClasses), r.Intn(60))
			if r.Intn(8) == 0 {
				so.Pkg = pick(r, []string{"package-operator", "pkg-a"})
			}
			so.Finalizer = r.Intn(6) == 0
			so.Ready = r.Intn(2) == 0
			switch r.Intn(4) {
			case 0:
				so.ObsGen = 1
			case 1:
				so.ObsGen = 7
			}
			s.Store = append(s.Store, so)
		}
	}
	// third-party interference right before one of PKO's writes
	if r.Intn(3) == 0 {
		m := 1 + r.Intn(2)
		for j := 0; j < m; j++ {
			p := pick(r, s.Objects)
			ns := p.NS
			if ns == "" {
				ns = ownerNS(fl)
			}
			if p.Kind == "ClThing" {
				ns = ""
			}
			e := EnvOp{At: r.Intn(n + 1), Kind: p.Kind, NS: ns, Name: p.Name, ObsGen: -1}
			e.Op = pick(r, []string{"reown", "setRev", "setPayload", "setReady", "delete", "recreate", "removeFinalizer", "relabel"})
			switch e.Op {
			case "reown":
				e.Owners = ctrlRefs(fl, pick(r, CtrlClasses), r.Intn(6))
			case "setRev":
				e.Rev = pick(r, RevClasses)
			case "setPayload":
				e.Payload = pick(r, []string{"x", "z"})
			case "setReady":
				e.Ready = r.Intn(2) == 0
				e.ObsGen = int64(r.Intn(3)) - 1
			case "relabel":
				e.Pkg = pick(r, []string{"", "package-operator", "pkg-a"})
			}
			s.Env = append(s.Env, e)
		}
	}
	return s
}

func Tags(s Scn, out string) []string {
	t := []string{"flavour=" + s.Flavour, "mode=" + s.Mode, fmt.Sprintf("objs=%d", len(s.Objects))}
	outcome := out
	if i := strings.Index(out, " # "); i >= 0 {
		outcome = out[:i]
	}
	if strings.HasPrefix(outcome, "ok:") {
		if outcome == "ok:" {
			outcome = "ok:allpass"
		} else {
			outcome = "ok:somefail"
		}
	}
	t = append(t, "outcome="+outcome)
	for _, w := range []string{"A ", "M ", "D ", "Conflict", "NotFound"} {
		if strings.Contains(out, w) {
			t = append(t, "ev~"+strings.TrimSpace(w))
		}
	}
	if len(s.Env) > 0 {
		t = append(t, "env")
	}
	if s.Owner.Paused {
		t = append(t, "paused")
	}
	if s.Force {
		t = append(t, "force")
	}
	return t
}
