package verifphase

import (
	"fmt"
	"math/rand"
	"strings"
)

// Universe of the generators (kept tiny on purpose; the Lean theorems cover the unbounded case,
// the generators only have to reach every branch of the model and realise every abstract row by
// several concrete objects).

func prevKind(fl Flavour) string {
	if fl.NSOwner {
		return "ObjectSet"
	}
	return "ClusterObjectSet"
}

func phaseKindFor(prevKind string) string {
	if strings.HasPrefix(prevKind, "Cluster") {
		return "ClusterObjectSetPhase"
	}
	return "ObjectSetPhase"
}

func ownerNS(fl Flavour) string {
	if fl.NSOwner {
		return "ns1"
	}
	return ""
}

func baseOwner(fl Flavour) OwnerSpec {
	return OwnerSpec{Kind: fl.OwnerKind, NS: ownerNS(fl), Name: "own", UID: "u-own", Rev: 3}
}

func basePrev(fl Flavour) []PrevSpec {
	pk := prevKind(fl)
	return []PrevSpec{
		{Kind: pk, Name: "os1", UID: "u-os1", Remotes: [][2]string{{"ph1", "u-ph1"}}},
		{Kind: pk, Name: "os2", UID: "u-os2"},
	}
}

// controller-state classes of a pre-existing object
var CtrlClasses = []string{"none", "own", "prevDirect", "prevRemote", "undeclared", "foreign", "wrongGroup", "staleUID", "ownPlain", "prev2"}

func ctrlRefs(fl Flavour, class string, variant int) []Ref {
	pk := prevKind(fl)
	extra := []Ref{}
	switch variant % 3 {
	case 1:
		extra = append(extra, Ref{Group: "apps", Kind: "ReplicaSet", Name: "rs", UID: "u-rs"})
	case 2:
		extra = append(extra, Ref{Group: PkoGroup, Kind: pk, Name: "os2", UID: "u-os2"}, Ref{Group: "", Kind: "ConfigMap", Name: "cm", UID: "u-cm"})
	}
	var c []Ref
	switch class {
	case "none":
	case "own":
		c = []Ref{{Group: PkoGroup, Kind: fl.OwnerKind, Name: "own", UID: "u-own", Ctrl: true}}
	case "ownPlain": // we are a plain owner, somebody else (or nobody) controls
		c = []Ref{{Group: PkoGroup, Kind: fl.OwnerKind, Name: "own", UID: "u-own"}}
		if variant%2 == 1 {
			c = append(c, Ref{Group: "apps", Kind: "Deployment", Name: "dep", UID: "u-dep", Ctrl: true})
		}
	case "prevDirect":
		c = []Ref{{Group: PkoGroup, Kind: pk, Name: "os1", UID: "u-os1", Ctrl: true}}
	case "prev2":
		c = []Ref{{Group: PkoGroup, Kind: pk, Name: "os2", UID: "u-os2", Ctrl: true}}
		if variant%3 == 2 {
			extra = extra[1:]
		}
	case "prevRemote":
		c = []Ref{{Group: PkoGroup, Kind: phaseKindFor(pk), Name: "ph1", UID: "u-ph1", Ctrl: true}}
	case "undeclared":
		c = []Ref{{Group: PkoGroup, Kind: pk, Name: "osX", UID: "u-osX", Ctrl: true}}
	case "foreign":
		c = []Ref{{Group: "apps", Kind: "Deployment", Name: "dep", UID: "u-dep", Ctrl: true}}
	case "wrongGroup":
		c = []Ref{{Group: "other.io", Kind: pk, Name: "os1", UID: "u-os1", Ctrl: true}}
	case "staleUID":
		c = []Ref{{Group: PkoGroup, Kind: pk, Name: "os1", UID: "u-old", Ctrl: true}}
	}
	if variant%2 == 0 {
		return append(c, extra...)
	}
	return append(extra, c...)
}

// ---------------------------------------------------------------------------------------------
// Dimensions the model claims to be IRRELEVANT.
//
// The abstract decision table (Table) distinguishes objects only through the predicates the model
// reads: is-controller / has-controller / controlled-by-a-declared-previous-revision (group, kind,
// name and uid of the controller reference against the declared list), recorded revision,
// collisionProtection, forced adoption (env / package label "package-operator").  Everything else
// that is PKO-specific is claimed to have no influence on any decision.  That claim is only as
// good as the variety of the concrete realisations of each abstract row, so the realisations vary
// all of it (Irr); a dependency of the code on any of these shows up as a realisation whose trace
// departs from the model and whose write the C01 monitor cannot justify.

// Irr is one assignment of the irrelevant dimensions.
type Irr struct {
	OwnerInst, ObjInst string // package-instance label on the owner / on the stored object ("" = absent)
	OwnerPkg, ObjPkg   string // package label (the value "package-operator" ON THE OBJECT is the table's `forced`)
	ObjX               int    // further PKO labels + annotations on the stored object (ObjExtras)
	OwnerX             int    // further PKO labels + annotations on the owner (OwnerExtras)
	PrevX              int    // labels on the declared previous revisions (PrevExtras)
	Kind               int    // kind of the controller for the classes "undeclared" / "foreign"
	Ident              int    // name / uid of an undeclared controller relative to the declared ones
	Extra              int    // further non-controller owner references
	Front              bool   // controller reference first / last in the list
	Other              int    // what the ownership list the strategy does NOT read says
	NoCache            bool   // object lacks the cache label (uncached read path)
	Drift              bool   // payload differs from the desired one
}

// (owner, object) values of a label: absent / equal / different, independently
var InstRels = [][2]string{{"", ""}, {"inst-a", "inst-a"}, {"", "inst-a"}, {"inst-a", "inst-b"}, {"inst-a", ""}, {"", "inst-b"}}
var PkgRels = [][2]string{
	{"", ""}, {"pkg-a", "pkg-a"}, {"pkg-a", "pkg-b"}, {"package-operator", ""},
	{"", "pkg-a"}, {"pkg-a", ""}, {"package-operator", "pkg-a"}, {"", "pkg-b"}, {"package-operator", "pkg-b"},
}

type Extras struct{ Labels, Ann map[string]string }

var ObjExtras = []Extras{
	{},
	{
		Labels: map[string]string{PkoGroup + "/phase-class": "default", PkoGroup + "/object-deployment": "own"},
		Ann:    map[string]string{PkoGroup + "/collision-protection": "None", PkoGroup + "/phase": "p"},
	},
	{
		Labels: map[string]string{PkoGroup + "/cached": "True", PkoGroup + "/object-set": "os1", RevAnn: "1", PkoGroup + "/owner": "own"},
		Ann: map[string]string{PkoGroup + "/condition-map": "Available => Ready", PkoGroup + "/package-source-image": "quay.io/x/y:v1",
			PkoGroup + "/package-config": "{}", PkoGroup + "/force-adoption": "true", PkoGroup + "/previous": "os1", PkoGroup + "/owner": "own"},
	},
}

var OwnerExtras = []Extras{
	{},
	{
		Labels: map[string]string{PkoGroup + "/object-deployment": "dep", PkoGroup + "/phase-class": "x"},
		Ann:    map[string]string{PkoGroup + "/collision-protection": "None", RevAnn: "9"},
	},
	{
		Labels: map[string]string{PkoGroup + "/cache": "True", PkoGroup + "/adopt": "true"},
		Ann:    map[string]string{PkoGroup + "/force-adoption": "true", PkoGroup + "/change-cause": "x", OwnersAnn: "[]"},
	},
}

var PrevExtras = []map[string]string{nil, {InstLabel: "inst-a", PkgLabel: "pkg-a"}, {InstLabel: "inst-b"}}

// kinds an undeclared package-operator.run controller can have
var UndeclaredKinds = []string{"ObjectSet", "ClusterObjectSet", "ObjectSetPhase", "ClusterObjectSetPhase"}

const NIdent = 4

// controllers that are no ObjectSet / ObjectSetPhase of package-operator.run at all
var ForeignCtrls = []Ref{
	{Group: "apps", Kind: "Deployment", Name: "dep", UID: "u-dep", Ctrl: true},
	{Group: "", Kind: "ConfigMap", Name: "cm0", UID: "u-cm0", Ctrl: true},
	{Group: PkoGroup, Kind: "ObjectDeployment", Name: "od", UID: "u-od", Ctrl: true},
	{Group: PkoGroup, Kind: "Package", Name: "pkg", UID: "u-pkg", Ctrl: true},
	{Group: PkoGroup, Kind: "ObjectSlice", Name: "os1", UID: "u-os1", Ctrl: true},
	{Group: "other.io", Kind: "ObjectSetPhase", Name: "ph1", UID: "u-ph1", Ctrl: true},
}

const NExtra = 4
const NOther = 4

func isPhaseKind(k string) bool { return strings.HasSuffix(k, "Phase") }

// undeclaredRef: a package-operator.run ObjectSet(Phase) controller that is NOT one of the declared
// previous revisions (basePrev: sets os1/u-os1, os2/u-os2, remote phase ph1/u-ph1 of os1) —
// because name, uid or kind differ.
func undeclaredRef(fl Flavour, kind string, ident int) Ref {
	pk := prevKind(fl)
	declName, declUID, otherName, otherUID := "os1", "u-os1", "ph1", "u-ph1"
	declared := kind == pk
	fresh, freshOther := "osX", "osY"
	if isPhaseKind(kind) {
		declName, declUID, otherName, otherUID = "ph1", "u-ph1", "os1", "u-os1"
		declared = kind == phaseKindFor(pk)
		fresh, freshOther = "phX", "phY"
	}
	r := Ref{Group: PkoGroup, Kind: kind, Ctrl: true}
	switch ident % NIdent {
	case 0: // unrelated name and uid
		r.Name, r.UID = fresh, "u-"+fresh
	case 1: // name of a declared one, other uid
		r.Name, r.UID = declName, "u-old"
	case 2: // uid of a declared one, other name
		r.Name, r.UID = freshOther, declUID
	case 3: // name AND uid of a declared one, but the kind is not the declared one's
		if declared {
			r.Name, r.UID = otherName, otherUID
		} else {
			r.Name, r.UID = declName, declUID
		}
	}
	return r
}

// ctrlRefsX is ctrlRefs with the irrelevant dimensions taken from x.
func ctrlRefsX(fl Flavour, class string, x Irr) []Ref {
	pk := prevKind(fl)
	var c []Ref
	switch class {
	case "none":
	case "own":
		c = []Ref{{Group: PkoGroup, Kind: fl.OwnerKind, Name: "own", UID: "u-own", Ctrl: true}}
	case "ownPlain":
		c = []Ref{{Group: PkoGroup, Kind: fl.OwnerKind, Name: "own", UID: "u-own"}}
		switch x.Kind % 3 {
		case 1:
			c = append(c, ForeignCtrls[x.Ident%len(ForeignCtrls)])
		case 2:
			c = append(c, undeclaredRef(fl, UndeclaredKinds[x.Ident%len(UndeclaredKinds)], 0))
		}
	case "prevDirect":
		c = []Ref{{Group: PkoGroup, Kind: pk, Name: "os1", UID: "u-os1", Ctrl: true}}
	case "prev2":
		c = []Ref{{Group: PkoGroup, Kind: pk, Name: "os2", UID: "u-os2", Ctrl: true}}
	case "prevRemote":
		c = []Ref{{Group: PkoGroup, Kind: phaseKindFor(pk), Name: "ph1", UID: "u-ph1", Ctrl: true}}
	case "undeclared":
		c = []Ref{undeclaredRef(fl, UndeclaredKinds[x.Kind%len(UndeclaredKinds)], x.Ident)}
	case "foreign":
		c = []Ref{ForeignCtrls[x.Kind%len(ForeignCtrls)]}
	case "wrongGroup":
		c = []Ref{{Group: "other.io", Kind: pk, Name: "os1", UID: "u-os1", Ctrl: true}}
	case "staleUID":
		c = []Ref{{Group: PkoGroup, Kind: pk, Name: "os1", UID: "u-old", Ctrl: true}}
	}
	var extra []Ref
	switch x.Extra % NExtra {
	case 1:
		extra = []Ref{{Group: "apps", Kind: "ReplicaSet", Name: "rs", UID: "u-rs"}}
	case 2:
		extra = []Ref{{Group: PkoGroup, Kind: pk, Name: "os2", UID: "u-os2"}, {Group: "", Kind: "ConfigMap", Name: "cm", UID: "u-cm"}}
	case 3: // a declared previous revision is a plain owner, somebody else controls
		extra = []Ref{{Group: PkoGroup, Kind: pk, Name: "os1", UID: "u-os1"}, {Group: PkoGroup, Kind: phaseKindFor(pk), Name: "ph1", UID: "u-ph1"}}
	}
	// owner references of one object carry distinct uids
	var ex []Ref
	for _, e := range extra {
		dup := false
		for _, r := range c {
			dup = dup || r.UID == e.UID
		}
		if !dup {
			ex = append(ex, e)
		}
	}
	if x.Front {
		return append(c, ex...)
	}
	return append(ex, c...)
}

// storeObjX: the pre-existing object of abstract class (class, rev) realised with x.
func storeObjX(fl Flavour, p PObj, class, rev string, x Irr) SObj {
	ns := p.NS
	if ns == "" {
		ns = ownerNS(fl)
	}
	if p.Kind == "ClThing" {
		ns = ""
	}
	o := SObj{Kind: p.Kind, NS: ns, Name: p.Name, Rev: rev, Cache: !x.NoCache, Payload: p.Payload, ObsGen: -1,
		Pkg: x.ObjPkg, Inst: x.ObjInst}
	ox := ObjExtras[x.ObjX%len(ObjExtras)]
	o.XLabels, o.XAnn = ox.Labels, ox.Ann
	refs := ctrlRefsX(fl, class, x)
	pk := prevKind(fl)
	// the list the strategy does not look at may say anything
	var other []Ref
	switch x.Other % NOther {
	case 1:
		other = []Ref{{Group: "apps", Kind: "Deployment", Name: "dep", UID: "u-dep", Ctrl: true}}
	case 2:
		other = []Ref{{Group: PkoGroup, Kind: pk, Name: "os1", UID: "u-os1", Ctrl: true}}
	case 3:
		other = []Ref{{Group: PkoGroup, Kind: pk, Name: "osX", UID: "u-osX", Ctrl: true}, {Group: PkoGroup, Kind: pk, Name: "os2", UID: "u-os2"}}
	}
	if isAnnotation(fl) {
		o.AnnOwners, o.Owners = refs, other
	} else {
		o.Owners, o.AnnOwners = refs, other
	}
	if x.Drift {
		o.Payload = p.Payload + "-drift"
	}
	return o
}

func applyOwnerIrr(o *OwnerSpec, prev []PrevSpec, x Irr) {
	o.InstLabel = x.OwnerInst
	if x.OwnerPkg != "" {
		o.PkgLabel = x.OwnerPkg
	}
	ox := OwnerExtras[x.OwnerX%len(OwnerExtras)]
	o.XLabels, o.XAnn = ox.Labels, ox.Ann
	for i := range prev {
		prev[i].Labels = PrevExtras[x.PrevX%len(PrevExtras)]
	}
}

// splitmix64: a tiny deterministic stream (independent of VERIF_SEED) for mixing the dimensions
type mix uint64

func (m *mix) n(k int) int {
	*m += 0x9e3779b97f4a7c15
	z := uint64(*m)
	z = (z ^ (z >> 30)) * 0xbf58476d1ce4e5b9
	z = (z ^ (z >> 27)) * 0x94d049bb133111eb
	z ^= z >> 31
	return int(z % uint64(k))
}

type picker interface{ n(k int) int }
type rngPicker struct{ r *rand.Rand }

func (p rngPicker) n(k int) int { return p.r.Intn(k) }

// fillIrr draws the dimensions that are not fixed by the caller.
func fillIrr(p picker, x *Irr) {
	x.ObjX, x.OwnerX, x.PrevX = p.n(len(ObjExtras)), p.n(len(OwnerExtras)), p.n(len(PrevExtras))
	x.Extra, x.Other = p.n(NExtra), p.n(NOther)
	x.Front = p.n(2) == 0
	x.NoCache = p.n(5) == 0
	x.Drift = p.n(6) == 0
}

// RandomIrr draws every dimension.
func RandomIrr(p picker) Irr {
	var x Irr
	ir, pr := InstRels[p.n(len(InstRels))], PkgRels[p.n(len(PkgRels))]
	x.OwnerInst, x.ObjInst, x.OwnerPkg, x.ObjPkg = ir[0], ir[1], pr[0], pr[1]
	x.Kind, x.Ident = p.n(12), p.n(12)
	fillIrr(p, &x)
	return x
}

// realise builds the single-object scenario of one abstract row with realisation x.
func realise(fl Flavour, mode, class, rev, cp string, force int, name string, garbagePrev bool, x Irr) Scn {
	p := PObj{Kind: "NsThing", Name: name, CP: cp, Payload: "x", DryRun: "accept"}
	if !fl.NSOwner {
		p.NS = "ns2"
	}
	so := storeObjX(fl, p, class, rev, x)
	if force == 2 {
		so.Pkg = "package-operator"
	}
	s := Scn{Flavour: fl.Name, Mode: mode, Force: force == 1, Owner: baseOwner(fl), Prev: basePrev(fl),
		Objects: []PObj{p}, Store: []SObj{so}}
	applyOwnerIrr(&s.Owner, s.Prev, x)
	if garbagePrev {
		s.Prev = append([]PrevSpec{{Kind: prevKind(fl), Name: "", UID: ""}}, s.Prev...)
	}
	return s
}

// TableX is Table with k >= 3 realisations per abstract row that vary the irrelevant dimensions:
// realisations 0..2 are fixed (three different instance-label relations in every row, the other
// dimensions mixed deterministically), the further ones are drawn from r.
func TableX(fl Flavour, r *rand.Rand, k int) []Scn {
	var out []Scn
	row := 0
	for _, mode := range []string{"reconcile", "teardown"} {
		for _, class := range CtrlClasses {
			for _, rev := range RevClasses {
				for _, cp := range CPs {
					for force := 0; force < 3; force++ {
						if mode == "teardown" && (cp != "Prevent" || force != 0) {
							continue
						}
						for j := 0; j < k; j++ {
							var x Irr
							if j < 3 {
								m := mix(uint64(row)*16 + uint64(j) + 1)
								ir := InstRels[(row+2*j)%len(InstRels)]
								pr := PkgRels[(row/2+3*j)%len(PkgRels)]
								x.OwnerInst, x.ObjInst, x.OwnerPkg, x.ObjPkg = ir[0], ir[1], pr[0], pr[1]
								x.Kind, x.Ident = row/3+j, row/12+j
								fillIrr(&m, &x)
							} else {
								x = RandomIrr(rngPicker{r})
							}
							out = append(out, realise(fl, mode, class, rev, cp, force, []string{"a", "b", "c"}[j%3], j%3 == 2, x))
						}
						row++
					}
				}
			}
		}
	}
	return out
}

// CtrlRealisation: one concrete controller state of an abstract controller class.
type CtrlRealisation struct {
	Class       string
	Kind, Ident int
}

// CtrlRealisations enumerates every controller class with every kind / identity it can be realised by.
func CtrlRealisations() []CtrlRealisation {
	var out []CtrlRealisation
	for _, class := range CtrlClasses {
		switch class {
		case "undeclared":
			for k := range UndeclaredKinds {
				for id := 0; id < NIdent; id++ {
					out = append(out, CtrlRealisation{class, k, id})
				}
			}
		case "foreign":
			for k := range ForeignCtrls {
				out = append(out, CtrlRealisation{class, k, 0})
			}
		case "ownPlain":
			for k := 0; k < 3; k++ {
				out = append(out, CtrlRealisation{class, k, k})
			}
		default:
			out = append(out, CtrlRealisation{class, 0, 0})
		}
	}
	return out
}

// IrrelevanceTable: EXHAUSTIVE product of controller realisation x instance-label relation x
// collisionProtection x revision class (reconcile; teardown with the label relations only).
// full: also x package-label relation (all 9), every collisionProtection value and revision class;
// otherwise the package-label relation rotates through 4 values inside every (controller
// realisation, instance-label relation) block, so that all triples of the three occur.
// The remaining irrelevant dimensions are mixed deterministically.
func IrrelevanceTable(fl Flavour, full bool) []Scn {
	pkgRels, cps, revs := [][2]string{{}}, []string{"Prevent", "IfNoController", "None"}, []string{"1", "3", "4"}
	if full {
		pkgRels, cps, revs = PkgRels, CPs, RevClasses
	}
	var out []Scn
	n := 0
	for _, mode := range []string{"reconcile", "teardown"} {
		for _, cr := range CtrlRealisations() {
			for _, ir := range InstRels {
				for _, pr := range pkgRels {
					for _, cp := range cps {
						for _, rev := range revs {
							if mode == "teardown" && (cp != "Prevent" || rev != "1") {
								continue
							}
							n++
							if !full {
								pr = PkgRels[n%4]
							}
							m := mix(uint64(n) * 977)
							x := Irr{OwnerInst: ir[0], ObjInst: ir[1], OwnerPkg: pr[0], ObjPkg: pr[1], Kind: cr.Kind, Ident: cr.Ident}
							fillIrr(&m, &x)
							out = append(out, realise(fl, mode, cr.Class, rev, cp, 0, []string{"a", "b", "c"}[n%3], n%7 == 0, x))
						}
					}
				}
			}
		}
	}
	return out
}

var DryRunVerdicts = []string{"reject", "reject:Forbidden", "reject:BadRequest", "reject:Conflict", "reject:Unauthorized",
	"reject:MethodNotAllowed", "reject:TooLarge", "error", "error:TooManyRequests", "error:Timeout", "error:ServerTimeout",
	"error:ServiceUnavailable", "error:Gone"}
var RevClasses = []string{"", "1", "2", "3", "4", "abc"}
var CPs = []string{"Prevent", "IfNoController", "None", ""}

func isAnnotation(fl Flavour) bool { return strings.HasPrefix(fl.Name, "multicluster") }

func storeObjFor(fl Flavour, p PObj, class, rev string, variant int) SObj {
	ns := p.NS
	if ns == "" {
		ns = ownerNS(fl)
	}
	if p.Kind == "ClThing" {
		ns = ""
	}
	o := SObj{Kind: p.Kind, NS: ns, Name: p.Name, Rev: rev, Cache: variant%4 != 3, Payload: p.Payload, ObsGen: -1}
	refs := ctrlRefs(fl, class, variant)
	if isAnnotation(fl) {
		o.AnnOwners = refs
		if variant%3 == 1 {
			o.Owners = []Ref{{Group: "apps", Kind: "Deployment", Name: "dep", UID: "u-dep", Ctrl: true}}
		}
	} else {
		o.Owners = refs
	}
	if variant%5 == 4 {
		o.Payload = p.Payload + "-drift"
	}
	return o
}

// Table enumerates the adoption decision table exhaustively for one object:
// controller class x revision class x collisionProtection x forced (off / env / label) x mode,
// each row realised by 3 concrete variants.
func Table(fl Flavour) []Scn {
	var out []Scn
	for _, mode := range []string{"reconcile", "teardown"} {
		for _, class := range CtrlClasses {
			for _, rev := range RevClasses {
				for _, cp := range CPs {
					for force := 0; force < 3; force++ {
						if mode == "teardown" && (cp != "Prevent" || force != 0) {
							continue
						}
						for variant := 0; variant < 3; variant++ {
							p := PObj{Kind: "NsThing", Name: []string{"a", "b", "c"}[variant], CP: cp, Payload: "x", DryRun: "accept"}
							if !fl.NSOwner {
								p.NS = "ns2"
							}
							so := storeObjFor(fl, p, class, rev, variant)
							if force == 2 {
								so.Pkg = "package-operator"
							}
							s := Scn{Flavour: fl.Name, Mode: mode, Force: force == 1, Owner: baseOwner(fl), Prev: basePrev(fl),
								Objects: []PObj{p}, Store: []SObj{so}}
							if variant == 2 {
								s.Prev = append([]PrevSpec{{Kind: prevKind(fl), Name: "", UID: ""}}, s.Prev...)
							}
							out = append(out, s)
						}
					}
				}
			}
		}
	}
	return out
}

// PreflightTable: each kind of violating object at every position of a 3-object phase.
func PreflightTable(fl Flavour) []Scn {
	var out []Scn
	viol := []func(p *PObj){
		func(p *PObj) {},
		func(p *PObj) { p.Kind = "Ghost" },
		func(p *PObj) { p.Preset = true },
		func(p *PObj) { p.NS = "ns2" },
		func(p *PObj) { p.Kind = "ClThing" },
		func(p *PObj) { p.Kind = "ClThing"; p.NS = "ns1" },
		func(p *PObj) { p.Kind = "ClThing"; p.NS = "ns2" },
		func(p *PObj) { p.DryRun = "reject" },
		func(p *PObj) { p.DryRun = "reject:Forbidden" },
		func(p *PObj) { p.DryRun = "reject:BadRequest" },
		func(p *PObj) { p.DryRun = "reject:Conflict" },
		func(p *PObj) { p.DryRun = "reject:Unauthorized" },
		func(p *PObj) { p.DryRun = "reject:MethodNotAllowed" },
		func(p *PObj) { p.DryRun = "reject:TooLarge" },
		func(p *PObj) { p.DryRun = "error" },
		func(p *PObj) { p.DryRun = "error:TooManyRequests" },
		func(p *PObj) { p.DryRun = "error:Timeout" },
		func(p *PObj) { p.DryRun = "error:ServerTimeout" },
		func(p *PObj) { p.DryRun = "error:ServiceUnavailable" },
		func(p *PObj) { p.DryRun = "error:Gone" },
		func(p *PObj) { p.NS = "ns1" },
	}
	for _, mode := range []string{"reconcile", "teardown"} {
		// the phase reconcilers are only ever called with Class "" (delegated phases never reach
		// ReconcilePhase in the ObjectSet controller; GetPhase() of the phase adapters drops the class)
		for _, class := range []string{""} {
			for pos := 0; pos < 3; pos++ {
				for vi, v := range viol {
					for _, present := range []bool{false, true} {
						var objs []PObj
						var store []SObj
						for i, n := range []string{"a", "b", "c"} {
							p := PObj{Kind: "NsThing", Name: n, CP: "Prevent", Payload: "x", DryRun: "accept"}
							if !fl.NSOwner {
								p.NS = "ns1"
							}
							if i == pos {
								v(&p)
							}
							objs = append(objs, p)
							if present && p.Kind != "Ghost" {
								store = append(store, storeObjFor(fl, p, "own", "3", 0))
							}
						}
						_ = vi
						out = append(out, Scn{Flavour: fl.Name, Mode: mode, Owner: baseOwner(fl), Prev: basePrev(fl), Class: class, Objects: objs, Store: store})
					}
				}
			}
		}
	}
	return out
}

// MapFaultTable: the REST mapper answers the lookups of some kinds with a transient error (API
// discovery degraded; NOT "no such kind") during the pass — exhaustively over mode x position of the
// object of interest in a 3-object phase x its shape (valid; foreign namespace; cluster-scoped kind
// with / without namespace; unregistered kind) x the set of failing kinds x what the store holds
// under its name (nothing; an object naming the owner as controller / as plain owner, placed by a
// third party where the object is one the owner could never have written; a stranger's object).
func MapFaultTable(fl Flavour) []Scn {
	var out []Scn
	shapes := []func(p *PObj){
		func(p *PObj) {},
		func(p *PObj) { p.NS = "ns2" },
		func(p *PObj) { p.Kind = "ClThing" },
		func(p *PObj) { p.Kind = "ClThing"; p.NS = "ns1" },
		func(p *PObj) { p.Kind = "ClThing"; p.NS = "ns2" },
		func(p *PObj) { p.Kind = "Ghost" },
	}
	faults := [][]string{{"NsThing"}, {"ClThing"}, {"NsThing", "ClThing"}, {"Ghost"}}
	states := []string{"", "own", "ownPlain", "foreign"}
	n := 0
	for _, mode := range []string{"reconcile", "teardown"} {
		for pos := 0; pos < 3; pos++ {
			for _, shape := range shapes {
				for _, fault := range faults {
					for _, state := range states {
						n++
						var objs []PObj
						var store []SObj
						for i, name := range []string{"a", "b", "c"} {
							p := PObj{Kind: "NsThing", Name: name, CP: "Prevent", Payload: "x", DryRun: "accept"}
							if !fl.NSOwner {
								p.NS = "ns1"
							}
							if i == pos {
								shape(&p)
							}
							objs = append(objs, p)
							if p.Kind == "Ghost" {
								continue
							}
							if i != pos {
								if n%3 != 0 { // the regular objects of the phase are mostly rolled out
									store = append(store, storeObjFor(fl, p, "own", "3", 0))
								}
							} else if state != "" {
								store = append(store, storeObjFor(fl, p, state, "3", n%2))
							}
						}
						out = append(out, Scn{Flavour: fl.Name, Mode: mode, Owner: baseOwner(fl), Prev: basePrev(fl), Objects: objs, Store: store,
							MapErr: fault, MapErrClass: MapErrClasses[n%len(MapErrClasses)]})
					}
				}
			}
		}
	}
	return out
}

// RandomMapFault: a Random scenario in which the REST mapper fails for a random set of kinds, and
// in which objects the scenario lists but does not hold in the store often exist all the same —
// carrying an owner reference to the scenario's owner (controller or plain) placed by a third party.
func RandomMapFault(r *rand.Rand, fl Flavour) Scn {
	s := Random(r, fl)
	s.MapErr = pick(r, [][]string{{"NsThing"}, {"ClThing"}, {"NsThing", "ClThing"}, {"Ghost"}, {"NsThing", "ClThing", "Ghost"}})
	s.MapErrClass = pick(r, MapErrClasses)
	for _, p := range s.Objects {
		if p.Kind == "Ghost" || r.Intn(2) == 0 {
			continue
		}
		ns := p.NS
		if ns == "" {
			ns = ownerNS(fl)
		}
		if p.Kind == "ClThing" {
			ns = ""
		}
		held := false
		for _, o := range s.Store {
			held = held || (o.Kind == p.Kind && o.NS == ns && o.Name == p.Name)
		}
		if !held {
			s.Store = append(s.Store, storeObjFor(fl, p, pick(r, []string{"own", "ownPlain"}), pick(r, RevClasses), r.Intn(60)))
		}
	}
	return s
}

func pick[T any](r *rand.Rand, xs []T) T { return xs[r.Intn(len(xs))] }

// Random scenario: 1-4 objects, arbitrary states, optional third-party interference.
func Random(r *rand.Rand, fl Flavour) Scn {
	s := Scn{Flavour: fl.Name, Owner: baseOwner(fl), Prev: basePrev(fl)}
	s.Mode = pick(r, []string{"reconcile", "reconcile", "teardown"})
	s.Owner.Rev = int64(1 + r.Intn(4))
	s.Owner.Paused = r.Intn(6) == 0
	if r.Intn(5) == 0 {
		s.Owner.PkgLabel = pick(r, []string{"pkg-a", "package-operator"})
	}
	s.Force = r.Intn(12) == 0
	// half of the phases also vary what the model claims to be irrelevant
	irr := r.Intn(2) == 0
	var ox Irr
	if irr {
		ox = RandomIrr(rngPicker{r})
		if r.Intn(3) != 0 {
			ox.OwnerPkg = s.Owner.PkgLabel
		}
		applyOwnerIrr(&s.Owner, s.Prev, ox)
	}
	switch r.Intn(6) {
	case 0:
		s.Prev = nil
	case 1:
		s.Prev = s.Prev[:1]
	case 2:
		s.Prev = append(s.Prev, PrevSpec{Kind: prevKind(fl), Name: "", UID: ""})
	}
	n := 1 + r.Intn(4)
	names := []string{"a", "b", "c", "d"}
	for i := 0; i < n; i++ {
		p := PObj{Kind: "NsThing", Name: names[i], CP: pick(r, CPs), Payload: pick(r, []string{"x", "y"}), DryRun: "accept"}
		if !fl.NSOwner {
			p.NS = pick(r, []string{"ns1", "ns2"})
		}
		switch r.Intn(14) {
		case 0:
			p.Kind = "Ghost"
		case 1:
			p.Kind = "ClThing"
		case 2:
			p.Kind = "ClThing"
			p.NS = pick(r, []string{"ns1", "ns2"})
		case 3:
			p.NS = pick(r, []string{"ns1", "ns2"})
		case 4:
			p.Preset = true
		case 5:
			p.DryRun = pick(r, DryRunVerdicts)
		}
		s.Objects = append(s.Objects, p)
		if r.Intn(4) != 0 && p.Kind != "Ghost" {
			so := storeObjFor(fl, p, pick(r, CtrlClasses), pick(r, RevClasses), r.Intn(60))
			if irr {
				x := RandomIrr(rngPicker{r})
				x.OwnerInst = ox.OwnerInst
				if r.Intn(2) == 0 { // objects of one phase tend to share their labels
					x.ObjInst, x.ObjPkg = pick(r, []string{ox.OwnerInst, ox.ObjInst}), ox.ObjPkg
				}
				so = storeObjX(fl, p, pick(r, CtrlClasses), pick(r, RevClasses), x)
			}
			if r.Intn(8) == 0 {
				so.Pkg = pick(r, []string{"package-operator", "pkg-a"})
			}
			so.Finalizer = r.Intn(6) == 0
			so.Ready = r.Intn(2) == 0
			switch r.Intn(4) {
			case 0:
				so.ObsGen = 1
			case 1:
				so.ObsGen = 7
			}
			s.Store = append(s.Store, so)
		}
	}
	// third-party interference right before one of PKO's writes
	if r.Intn(3) == 0 {
		m := 1 + r.Intn(2)
		for j := 0; j < m; j++ {
			p := pick(r, s.Objects)
			ns := p.NS
			if ns == "" {
				ns = ownerNS(fl)
			}
			if p.Kind == "ClThing" {
				ns = ""
			}
			e := EnvOp{At: r.Intn(n + 1), Kind: p.Kind, NS: ns, Name: p.Name, ObsGen: -1}
			e.Op = pick(r, []string{"reown", "setRev", "setPayload", "setReady", "delete", "recreate", "removeFinalizer", "relabel"})
			switch e.Op {
			case "reown":
				e.Owners = ctrlRefs(fl, pick(r, CtrlClasses), r.Intn(6))
			case "setRev":
				e.Rev = pick(r, RevClasses)
			case "setPayload":
				e.Payload = pick(r, []string{"x", "z"})
			case "setReady":
				e.Ready = r.Intn(2) == 0
				e.ObsGen = int64(r.Intn(3)) - 1
			case "relabel":
				e.Pkg = pick(r, []string{"", "package-operator", "pkg-a"})
			}
			s.Env = append(s.Env, e)
		}
	}
	return s
}

func Tags(s Scn, out string) []string {
	t := []string{"flavour=" + s.Flavour, "mode=" + s.Mode, fmt.Sprintf("objs=%d", len(s.Objects))}
	outcome := out
	if i := strings.Index(out, " # "); i >= 0 {
		outcome = out[:i]
	}
	if strings.HasPrefix(outcome, "ok:") {
		if outcome == "ok:" {
			outcome = "ok:allpass"
		} else {
			outcome = "ok:somefail"
		}
	}
	t = append(t, "outcome="+outcome)
	for _, w := range []string{"A ", "M ", "D ", "Conflict", "NotFound"} {
		if strings.Contains(out, w) {
			t = append(t, "ev~"+strings.TrimSpace(w))
		}
	}
	if len(s.Env) > 0 {
		t = append(t, "env")
	}
	if len(s.MapErr) > 0 {
		t = append(t, "mapErr", "mapErr="+strings.Join(s.MapErr, "+"), "mapErrClass="+s.MapErrClass)
		hit := false
		for _, p := range s.Objects {
			for _, k := range s.MapErr {
				hit = hit || p.Kind == k
			}
		}
		if hit {
			t = append(t, "mapErr-hit")
		}
	}
	if s.Owner.Paused {
		t = append(t, "paused")
	}
	if s.Force {
		t = append(t, "force")
	}
	// distribution of the dimensions the model claims to be irrelevant (first stored object)
	if len(s.Store) > 0 {
		o := s.Store[0]
		rel := func(a, b string) string {
			switch {
			case a == "" && b == "":
				return "none"
			case a == "":
				return "objOnly"
			case b == "":
				return "ownerOnly"
			case a == b:
				return "equal"
			}
			return "different"
		}
		t = append(t, "inst="+rel(s.Owner.InstLabel, o.Inst), "pkg="+rel(s.Owner.PkgLabel, o.Pkg))
		refs := o.Owners
		if strings.HasPrefix(s.Flavour, "multicluster") {
			refs = o.AnnOwners
		}
		ck := "-"
		for _, r := range refs {
			if r.Ctrl {
				ck = r.Group + "/" + r.Kind
			}
		}
		t = append(t, "ctrl="+ck)
		if len(o.XAnn)+len(o.XLabels) > 0 {
			t = append(t, "objExtras")
		}
	}
	if len(s.Owner.XAnn)+len(s.Owner.XLabels) > 0 {
		t = append(t, "ownerExtras")
	}
	return t
}
