package objectdeployments

// Correspondence harness for property C09 at the ObjectDeployment level: "Pausing an
// ObjectDeployment pauses every non-archived revision and keeps them paused while the parent is
// paused; un-pausing releases exactly the revisions the parent paused."
//
// Generator only: the histories are executed by harness/C08/zz_verif_c08_hist_test.go (REAL
// objectSetReconciler.Reconcile of a controller built by NewObjectDeploymentController over real
// ObjectSet objects).  Histories of: parent pause / un-pause, third-party edits of a revision's
// spec.lifecycleState and of its paused-by-parent annotation independently of each other,
// archived revisions, several revisions, roll-outs, deletions.

import (
	"testing"

	"package-operator.run/internal/verifkit"
)

type c09State struct {
	lc  string // A | P | X
	pbp bool
}

// every combination of lifecycleState x annotation
var c09States = []c09State{{"A", false}, {"A", true}, {"P", false}, {"P", true}, {"X", false}, {"X", true}}

func c09Rev(i int, s c09State, cur bool) c08Rev {
	return c08Rev{Rev: int64(i + 1), Lc: s.lc, Pbp: s.pbp, Sp: s.lc == "P", Av: cur, Co: []int{i % 3}, Obj: []int{i % 3}, Hm: cur}
}

func TestVerifC09Od(t *testing.T) {
	r := verifkit.Open(t, "C09")
	defer r.Close()
	x := &c08HistRunner{r: r, seen: map[string]bool{}}
	x.fixed(t)
	if r.ReplayOnly() {
		return
	}

	// ---- 1. exhaustive: one revision in every (lifecycleState, annotation) state, next to a
	// sibling in every state (or none), parent paused or not; a pass; a third party puts the
	// revision into every (lifecycleState, annotation) state by editing the lifecycleState only,
	// the annotation only, or both; a pass; the parent's pause is flipped (or not); a pass.
	count := 0
	for _, odp := range []bool{false, true} {
		for _, s0 := range c09States {
			for sib := -1; sib < len(c09States); sib++ {
				for _, sibFirst := range []bool{false, true} {
					if sib < 0 && sibFirst {
						continue
					}
					var init []c08Rev
					target := 0
					switch {
					case sib < 0:
						init = []c08Rev{c09Rev(0, s0, true)}
					case sibFirst:
						init = []c08Rev{c09Rev(0, c09States[sib], false), c09Rev(1, s0, true)}
						target = 1
					default:
						init = []c08Rev{c09Rev(0, s0, false), c09Rev(1, c09States[sib], true)}
					}
					for _, s1 := range c09States {
						for how := 0; how < 3; how++ {
							var e c08Op
							switch how {
							case 0: // lifecycleState only
								e = c08OpEdit(target, s1.lc, nil)
							case 1: // annotation only
								e = c08OpEdit(target, "", c08pb(s1.pbp))
							default:
								e = c08OpEdit(target, s1.lc, c08pb(s1.pbp))
							}
							for flip := 0; flip < 2; flip++ {
								ops := []c08Op{c08OpOD(), e, c08OpOD()}
								if flip == 1 {
									ops = append(ops, c08OpPause(!odp))
								}
								ops = append(ops, c08OpOD())
								x.run(c08Hist{Fin: true, Odp: odp, Limit: nil, Init: init, Ops: ops})
								count++
							}
						}
					}
				}
			}
		}
	}
	r.Extra["exhaustive_edit_table_count"] = count

	// ---- 2. exhaustive: every operation sequence up to length L over a pause alphabet on three
	// revisions (archived, replaced, current), parent paused or not at the start.
	L := r.Pick(3, 4)
	count = 0
	yes, no := true, false
	for _, odp := range []bool{false, true} {
		for _, mid := range []c09State{{"A", false}, {"P", true}, {"P", false}} {
			init := []c08Rev{c09Rev(0, c09State{"X", false}, false), c09Rev(1, mid, false), c09Rev(2, c09State{"A", false}, true)}
			alpha := []c08Op{
				c08OpOD(),
				c08OpPause(true),
				c08OpPause(false),
				c08OpEdit(1, "A", nil),
				c08OpEdit(1, "P", nil),
				c08OpEdit(1, "", &yes),
				c08OpEdit(1, "", &no),
				c08OpEdit(2, "A", nil),
				c08OpEdit(2, "P", &no),
				c08OpEdit(0, "A", nil), // un-archive the archived revision
				c08OpNew(true, []int{0}),
			}
			var rec func(ops []c08Op)
			rec = func(ops []c08Op) {
				if len(ops) > 0 {
					h := c08Hist{Fin: true, Odp: odp, Limit: nil, Init: init}
					h.Ops = append(append([]c08Op{}, ops...), c08OpOD())
					x.run(h)
					count++
				}
				if len(ops) == L {
					return
				}
				for _, o := range alpha {
					if len(ops) > 0 && ops[len(ops)-1].Op == "od" && o.Op == "od" {
						continue
					}
					rec(append(append([]c08Op{}, ops...), o))
				}
			}
			rec(nil)
		}
	}
	r.Extra["exhaustive_pause_alphabet_len"] = L
	r.Extra["exhaustive_pause_alphabet_count"] = count

	// ---- 3. seeded random histories, pause / edit heavy
	for it := 0; it < r.Pick(12000, 30000); it++ {
		x.run(c08RandHist(x, true))
	}
}
