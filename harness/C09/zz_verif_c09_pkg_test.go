package packages

// Correspondence harness for property C09 at the Package level, stream "pkgpause": "Pausing a
// Package pauses its ObjectDeployment ... creates no revision while paused; unpausing releases".
//
// Generator only: the histories are executed by c16CtrlExec of harness/C16/ctrl (the REAL
// GenericPackageController.Reconcile with the real unpackReconciler / PackageDeployer /
// objectDeploymentStatusReconciler over the in-memory API of verifc16 with fault injection).
// New history dimension: spec.paused of the Package — its value at creation and the ops pause /
// unpause at ANY point (before the first pass, between a failed pull and its retry, around API
// faults, after a roll-out, around spec edits) — plus third parties pausing / un-pausing / deleting
// the ObjectDeployment directly.

import (
	"encoding/json"
	"fmt"
	"strings"
	"testing"
	"time"

	"k8s.io/client-go/util/retry"

	"package-operator.run/internal/verifc16"
	"package-operator.run/internal/verifkit"
)

func c09PkgTags(s verifc16.Scn, out string) []string {
	tags := c16CtrlTags(s, out)
	seen := map[string]bool{}
	add := func(t string) {
		if !seen[t] {
			seen[t] = true
			tags = append(tags, t)
		}
	}
	add(fmt.Sprintf("init-paused=%v", s.Paused))
	// state class of every pass: Package paused?, ObjectDeployment before the pass (absent / un-paused /
	// paused; as left by the previous pass or a third party), result
	pre := "-"
	i := 0
	steps := strings.Split(out, ";")
	for _, op := range s.Ops {
		if i >= len(steps) {
			break
		}
		st := steps[i]
		i++
		switch op.Op {
		case "tp":
			switch {
			case op.F == "oddel":
				pre = "-"
			case pre != "-" && op.F == "odpause":
				pre = "1"
			case pre != "-" && op.F == "odunpause":
				pre = "0"
			}
		case "pass":
			f := map[string]string{}
			for _, kv := range strings.Fields(st) {
				if k, v, ok := strings.Cut(kv, "="); ok {
					f[k] = v
				}
			}
			add(fmt.Sprintf("pass:pp=%s,odpre=%s,r=%s", f["pp"], pre, f["r"]))
			if f["pp"] == "1" && f["h"] == "-" {
				add("paused-before-first-unpack")
			}
			pre = f["odp"]
		}
	}
	return tags
}

// c09RandomScn: a random C16 ctrl history with the pause dimension mixed in.
func c09RandomScn(r verifc16.Rng) verifc16.Scn {
	s := verifc16.RandomScn(r, "ctrl")
	s.Paused = r.Intn(2) == 0
	var ops []verifc16.Op
	for _, op := range s.Ops {
		switch x := r.Intn(12); {
		case x < 2:
			ops = append(ops, verifc16.Op{Op: "pause"})
		case x < 4:
			ops = append(ops, verifc16.Op{Op: "unpause"})
		case x < 5:
			ops = append(ops, verifc16.Op{Op: "tp", F: []string{"odpause", "odunpause", "odunpause", "oddel"}[r.Intn(4)]})
		}
		ops = append(ops, op)
	}
	if r.Intn(2) == 0 {
		ops = append(ops, verifc16.Op{Op: "unpause"}, verifc16.Op{Op: "pass"})
	}
	s.Ops = ops
	return s
}

func TestVerifC09PkgPause(t *testing.T) {
	r := verifkit.Open(t, "C09")
	defer r.Close()
	// keep the 5 steps of retry.DefaultRetry, shorten only the sleep between conflict retries
	retry.DefaultRetry.Duration = time.Microsecond
	seen := map[string]bool{}
	run := func(s verifc16.Scn) {
		s.Mode = "pkgpause"
		b, _ := json.Marshal(s)
		if seen[string(b)] {
			return
		}
		seen[string(b)] = true
		out := verifkit.Guard(func() string { return c16CtrlExec(s) })
		r.Emit(string(b), out, c09PkgTags(s, out)...)
	}
	for _, line := range r.Fixed() {
		var s verifc16.Scn
		if err := json.Unmarshal([]byte(line), &s); err != nil {
			t.Fatalf("bad scenario %q: %v", line, err)
		}
		run(s)
	}
	if r.ReplayOnly() {
		return
	}
	pass := verifc16.Op{Op: "pass"}
	fp := func(f string) verifc16.Op { return verifc16.Op{Op: "pass", Fault: f} }
	edit := func(f string, v int) verifc16.Op { return verifc16.Op{Op: "edit", F: f, V: v} }
	pause, unpause := verifc16.Op{Op: "pause"}, verifc16.Op{Op: "unpause"}
	tp := func(f string) verifc16.Op { return verifc16.Op{Op: "tp", F: f} }
	toggle := func(p bool) verifc16.Op {
		if p {
			return unpause
		}
		return pause
	}
	valid := verifc16.Pkg{Load: "ok", Render: "ok", Comps: true}
	valid2 := verifc16.Pkg{Load: "ok", Render: "ok", Cons: []string{"k8s"}}
	base := func(scope string, paused bool) verifc16.Scn {
		return verifc16.Scn{Scope: scope, Env: verifc16.Env{K8sNew: true}, Uniq: "1", Pkgs: []verifc16.Pkg{valid, valid2},
			Spec: []int{0, 1, 0}, Paused: paused}
	}
	n1 := 0

	// ---- 1. every operation sequence of length <= 3 (quick) / 4 (thorough) over a 12-symbol alphabet
	// (ClusterPackage: one less),
	// from a Package created paused or not, closed by a fault-free pass
	alphabet := []verifc16.Op{pass, fp("pull"), fp("odupdate"), fp("conflict1"), fp("status"), pause, unpause,
		edit("image", 1), edit("config", 2), tp("odpause"), tp("odunpause"), tp("oddel")}
	maxLen := r.Pick(3, 4)
	var seqs func(max int, prefix []verifc16.Op, f func([]verifc16.Op))
	seqs = func(max int, prefix []verifc16.Op, f func([]verifc16.Op)) {
		f(prefix)
		if len(prefix) == max {
			return
		}
		for _, o := range alphabet {
			seqs(max, append(prefix[:len(prefix):len(prefix)], o), f)
		}
	}
	for _, scope := range []string{"ns", "cluster"} {
		for _, paused := range []bool{true, false} {
			// the scope only selects the adapter: one symbol less for ClusterPackages
			seqs(maxLen-btoi(scope == "cluster"), nil, func(ops []verifc16.Op) {
				s := base(scope, paused)
				s.Ops = append(append([]verifc16.Op(nil), ops...), pass)
				run(s)
				n1++
			})
		}
	}

	// ---- 2. every fault at two positions around a pause / un-pause and the way back
	faults := []string{"", "pull", "env", "pkgget", "odget0", "odget", "odcreate", "odupdate", "gc", "odget2", "status",
		"conflict1", "conflict3", "conflict5"}
	for _, scope := range []string{"ns", "cluster"} {
		for _, paused := range []bool{true, false} {
			for _, f1 := range faults {
				for _, f2 := range faults {
					s := base(scope, paused)
					s.Ops = []verifc16.Op{fp(f1), toggle(paused), fp(f2), pass, toggle(!paused), fp(f2), pass}
					run(s)
					s = base(scope, paused)
					s.Ops = []verifc16.Op{pass, toggle(paused), fp(f1), edit("image", 1), fp(f2), toggle(!paused), fp(f1), pass}
					run(s)
					n1 += 2
				}
			}
		}
	}

	// ---- 3. every package class, created paused; paused again after the roll-out and edited while paused
	var under []verifc16.Pkg
	for _, load := range []string{"nomanifest", "badyaml", "badgvk"} {
		under = append(under, verifc16.Pkg{Load: load, Render: "ok"})
	}
	for _, rd := range []string{"nophases", "nophaseann", "dup", "tmplerr", "scope"} {
		under = append(under, verifc16.Pkg{Load: "ok", Render: rd})
	}
	for _, cons := range [][]string{{"platform"}, {"k8s"}, {"ocp"}, {"unique"}, {"badrange"}} {
		under = append(under, verifc16.Pkg{Load: "ok", Render: "ok", Cons: cons})
	}
	under = append(under, verifc16.Pkg{Load: "ok", Render: "ok", BadLock: true}, verifc16.Pkg{Load: "ok", Render: "ok"})
	for _, scope := range []string{"ns", "cluster"} {
		for _, u := range under {
			for _, env := range []verifc16.Env{{}, {Ocp: true, K8sNew: true, OcpNew: true}} {
				s := verifc16.Scn{Scope: scope, Env: env, Uniq: "2", Pkgs: []verifc16.Pkg{valid, u}, Spec: []int{1, 1, 0}, Paused: true}
				s.Ops = []verifc16.Op{pass, fp("pull"), pass, unpause, pass, pass, pause, pass, edit("image", 0), pass, unpause, pass,
					pause, edit("image", 1), pass, unpause, pass}
				run(s)
				n1++
			}
		}
	}
	r.Extra["exhaustive_count"] = n1

	// ---- 4. seeded random histories
	n := r.Pick(3000, 30000)
	for i := 0; i < n; i++ {
		run(c09RandomScn(r.Rng))
	}
}
