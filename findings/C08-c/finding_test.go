package objectsets

// Finding 2 ("resume after pause archives on stale status"), executed against the UNCHANGED tree.
//
// Everything below the "harness" section drives the real ObjectDeployment controller
// (objectdeployments.NewObjectDeploymentController) and the real ObjectSet controller
// (NewObjectSetController, incl. the real controllers.PhaseReconciler, preflight checks, revision-, slice- and
// phases-reconcilers, teardown) by hand, on top of controller-runtime's fake client.
//
// The harness only supplies what a kube-apiserver does and the fake client (v0.20.4) does not:
//   - metadata.uid on create, metadata.generation on create / spec change,
//   - server-side-apply patches (PhaseReconciler writes objects with SSA; the fake client rejects apply patches).
// and a "dynamic cache" that reads straight from the fake client (i.e. an always up-to-date cache).
// No .status of any package-operator object is written by the test. The only status written by hand is the one of
// the apps/v1 Deployment, where the test plays kube-controller-manager.

import (
	"context"
	"encoding/json"
	"fmt"
	"reflect"
	"testing"

	"github.com/stretchr/testify/assert"
	"github.com/stretchr/testify/require"
	appsv1 "k8s.io/api/apps/v1"
	corev1 "k8s.io/api/core/v1"
	apimachineryerrors "k8s.io/apimachinery/pkg/api/errors"
	"k8s.io/apimachinery/pkg/api/meta"
	metav1 "k8s.io/apimachinery/pkg/apis/meta/v1"
	"k8s.io/apimachinery/pkg/apis/meta/v1/unstructured"
	"k8s.io/apimachinery/pkg/runtime"
	"k8s.io/apimachinery/pkg/types"
	clientgoscheme "k8s.io/client-go/kubernetes/scheme"
	ctrl "sigs.k8s.io/controller-runtime"
	"sigs.k8s.io/controller-runtime/pkg/client"
	"sigs.k8s.io/controller-runtime/pkg/client/fake"
	"sigs.k8s.io/controller-runtime/pkg/handler"
	"sigs.k8s.io/controller-runtime/pkg/predicate"
	"sigs.k8s.io/controller-runtime/pkg/source"

	apis "package-operator.run/apis"
	corev1alpha1 "package-operator.run/apis/core/v1alpha1"
	"package-operator.run/internal/controllers/objectdeployments"
)

// ---------------------------------------------------------------------------------------------------------------------
// harness
// ---------------------------------------------------------------------------------------------------------------------

const f2Namespace = "f2-ns"

// f2APIServer adds kube-apiserver behaviour the fake client is lacking.
type f2APIServer struct {
	client.Client
	uids int
}

func (c *f2APIServer) nextUID() types.UID {
	c.uids++
	return types.UID(fmt.Sprintf("uid-%03d", c.uids))
}

func f2IsDryRun(dryRun []string) bool {
	for _, d := range dryRun {
		if d == metav1.DryRunAll {
			return true
		}
	}
	return false
}

func (c *f2APIServer) Create(ctx context.Context, obj client.Object, opts ...client.CreateOption) error {
	co := &client.CreateOptions{}
	co.ApplyOptions(opts)
	if !f2IsDryRun(co.DryRun) {
		if len(obj.GetUID()) == 0 {
			obj.SetUID(c.nextUID())
		}
		obj.SetGeneration(1)
	}
	return c.Client.Create(ctx, obj, opts...)
}

func f2Spec(t runtime.Object) interface{} {
	u, err := runtime.DefaultUnstructuredConverter.ToUnstructured(t)
	if err != nil {
		panic(err)
	}
	spec := u["spec"]
	if spec == nil {
		// e.g. ConfigMap
		return []interface{}{u["data"], u["binaryData"]}
	}
	// normalize via JSON, so int64/float64 and empty/nil don't matter.
	j, err := json.Marshal(spec)
	if err != nil {
		panic(err)
	}
	var out interface{}
	if err := json.Unmarshal(j, &out); err != nil {
		panic(err)
	}
	return out
}

// Update bumps metadata.generation when .spec changes, like the API server does.
func (c *f2APIServer) Update(ctx context.Context, obj client.Object, opts ...client.UpdateOption) error {
	uo := &client.UpdateOptions{}
	uo.ApplyOptions(opts)
	if f2IsDryRun(uo.DryRun) {
		return c.Client.Update(ctx, obj, opts...)
	}

	before := obj.DeepCopyObject().(client.Object)
	if err := c.Client.Get(ctx, client.ObjectKeyFromObject(obj), before); err != nil {
		return c.Client.Update(ctx, obj, opts...)
	}
	obj.SetGeneration(before.GetGeneration())
	if err := c.Client.Update(ctx, obj, opts...); err != nil {
		return err
	}
	// compare what is stored (defaulted/normalized by the round trip through the typed object).
	after := obj.DeepCopyObject().(client.Object)
	if err := c.Client.Get(ctx, client.ObjectKeyFromObject(obj), after); err != nil {
		return err
	}
	if !reflect.DeepEqual(f2Spec(before), f2Spec(after)) {
		after.SetGeneration(before.GetGeneration() + 1)
		if err := c.Client.Update(ctx, after); err != nil {
			return err
		}
		obj.SetGeneration(after.GetGeneration())
		obj.SetResourceVersion(after.GetResourceVersion())
	}
	return nil
}

// Patch implements just enough of server-side-apply for what PhaseReconciler sends:
// the full desired object, force ownership, a single field manager.
func (c *f2APIServer) Patch(ctx context.Context, obj client.Object, patch client.Patch, opts ...client.PatchOption) error {
	if patch.Type() != types.ApplyPatchType {
		return c.Client.Patch(ctx, obj, patch, opts...)
	}
	po := &client.PatchOptions{}
	po.ApplyOptions(opts)

	data, err := patch.Data(obj)
	if err != nil {
		return err
	}
	applied := &unstructured.Unstructured{}
	if err := json.Unmarshal(data, &applied.Object); err != nil {
		return err
	}

	current := &unstructured.Unstructured{}
	current.SetGroupVersionKind(applied.GroupVersionKind())
	err = c.Client.Get(ctx, client.ObjectKeyFromObject(applied), current)
	switch {
	case apimachineryerrors.IsNotFound(err):
		if f2IsDryRun(po.DryRun) {
			return nil
		}
		applied.SetResourceVersion("")
		if err := c.Create(ctx, applied); err != nil {
			return err
		}
		return c.Client.Get(ctx, client.ObjectKeyFromObject(applied), obj)
	case err != nil:
		return err
	}
	if f2IsDryRun(po.DryRun) {
		return nil
	}

	merged := current.DeepCopy()
	for k, v := range applied.Object {
		switch k {
		case "status", "apiVersion", "kind":
		case "metadata":
			// single field manager: everything this manager applied before and does not apply anymore
			// is removed, for the fields PhaseReconciler cares about that is the ownerReferences list.
			merged.SetOwnerReferences(applied.GetOwnerReferences())
			labels := merged.GetLabels()
			if labels == nil {
				labels = map[string]string{}
			}
			for lk, lv := range applied.GetLabels() {
				labels[lk] = lv
			}
			merged.SetLabels(labels)
			annotations := merged.GetAnnotations()
			if annotations == nil {
				annotations = map[string]string{}
			}
			for ak, av := range applied.GetAnnotations() {
				annotations[ak] = av
			}
			merged.SetAnnotations(annotations)
		default:
			merged.Object[k] = v
		}
	}
	if err := c.Update(ctx, merged); err != nil {
		return err
	}
	return c.Client.Get(ctx, client.ObjectKeyFromObject(applied), obj)
}

// f2DynamicCache is a dynamic cache that is always in sync with the API server.
type f2DynamicCache struct{ client.Reader }

func (f2DynamicCache) Source(handler.EventHandler, ...predicate.Predicate) source.Source { return nil }
func (f2DynamicCache) Free(context.Context, client.Object) error                         { return nil }
func (f2DynamicCache) Watch(context.Context, client.Object, runtime.Object) error        { return nil }

type f2World struct {
	t      *testing.T
	ctx    context.Context
	scheme *runtime.Scheme
	c      *f2APIServer
	od     *objectdeployments.GenericObjectDeploymentController
	os     *GenericObjectSetController
}

func f2NewWorld(t *testing.T) *f2World {
	t.Helper()
	scheme := runtime.NewScheme()
	require.NoError(t, clientgoscheme.AddToScheme(scheme))
	require.NoError(t, apis.AddToScheme(scheme))

	c := &f2APIServer{
		Client: fake.NewClientBuilder().
			WithScheme(scheme).
			WithStatusSubresource(
				&corev1alpha1.ObjectDeployment{}, &corev1alpha1.ObjectSet{}, &corev1alpha1.ObjectSetPhase{}).
			Build(),
	}

	restMapper := meta.NewDefaultRESTMapper(nil)
	restMapper.Add(appsv1.SchemeGroupVersion.WithKind("Deployment"), meta.RESTScopeNamespace)
	restMapper.Add(corev1.SchemeGroupVersion.WithKind("ConfigMap"), meta.RESTScopeNamespace)

	log := ctrl.Log.WithName("finding2")
	return &f2World{
		t: t, ctx: context.Background(), scheme: scheme, c: c,
		od: objectdeployments.NewObjectDeploymentController(c, log, scheme),
		os: NewObjectSetController(c, log, scheme, f2DynamicCache{Reader: c}, c, nil, restMapper),
	}
}

func (w *f2World) reconcileOD(name string) {
	w.t.Helper()
	_, err := w.od.Reconcile(w.ctx, ctrl.Request{NamespacedName: client.ObjectKey{Name: name, Namespace: f2Namespace}})
	require.NoError(w.t, err, "ObjectDeployment controller")
}

func (w *f2World) reconcileOS(name string) {
	w.t.Helper()
	_, err := w.os.Reconcile(w.ctx, ctrl.Request{NamespacedName: client.ObjectKey{Name: name, Namespace: f2Namespace}})
	require.NoError(w.t, err, "ObjectSet controller")
}

func (w *f2World) objectSets() []corev1alpha1.ObjectSet {
	w.t.Helper()
	list := &corev1alpha1.ObjectSetList{}
	require.NoError(w.t, w.c.List(w.ctx, list, client.InNamespace(f2Namespace)))
	return list.Items
}

func (w *f2World) objectSet(name string) *corev1alpha1.ObjectSet {
	w.t.Helper()
	os := &corev1alpha1.ObjectSet{}
	require.NoError(w.t, w.c.Get(w.ctx, client.ObjectKey{Name: name, Namespace: f2Namespace}, os))
	return os
}

// returns the name of the ObjectSet that is not in `known`.
func (w *f2World) newObjectSetName(known ...string) string {
	w.t.Helper()
	var found []string
outer:
	for _, os := range w.objectSets() {
		for _, k := range known {
			if os.Name == k {
				continue outer
			}
		}
		found = append(found, os.Name)
	}
	require.Len(w.t, found, 1, "expected exactly one new ObjectSet")
	return found[0]
}

// kube-controller-manager: report on a Deployment.
func (w *f2World) deploymentStatus(name string, available bool) {
	w.t.Helper()
	d := &appsv1.Deployment{}
	require.NoError(w.t, w.c.Get(w.ctx, client.ObjectKey{Name: name, Namespace: f2Namespace}, d))
	status := corev1.ConditionFalse
	if available {
		status = corev1.ConditionTrue
	}
	d.Status.ObservedGeneration = d.Generation
	d.Status.Conditions = []appsv1.DeploymentCondition{{Type: appsv1.DeploymentAvailable, Status: status}}
	require.NoError(w.t, w.c.Status().Update(w.ctx, d))
}

func (w *f2World) configMap(name string) (*corev1.ConfigMap, bool) {
	w.t.Helper()
	cm := &corev1.ConfigMap{}
	err := w.c.Get(w.ctx, client.ObjectKey{Name: name, Namespace: f2Namespace}, cm)
	if apimachineryerrors.IsNotFound(err) {
		return nil, false
	}
	require.NoError(w.t, err)
	return cm, true
}

func f2Deployment(name, image string) corev1alpha1.ObjectSetObject {
	return corev1alpha1.ObjectSetObject{Object: unstructured.Unstructured{Object: map[string]interface{}{
		"apiVersion": "apps/v1", "kind": "Deployment",
		"metadata": map[string]interface{}{"name": name},
		"spec": map[string]interface{}{
			"replicas": int64(1),
			"selector": map[string]interface{}{"matchLabels": map[string]interface{}{"app": name}},
			"template": map[string]interface{}{
				"metadata": map[string]interface{}{"labels": map[string]interface{}{"app": name}},
				"spec": map[string]interface{}{
					"containers": []interface{}{map[string]interface{}{"name": "main", "image": image}},
				},
			},
		},
	}}}
}

func f2ConfigMap(name string, data map[string]interface{}) corev1alpha1.ObjectSetObject {
	return corev1alpha1.ObjectSetObject{Object: unstructured.Unstructured{Object: map[string]interface{}{
		"apiVersion": "v1", "kind": "ConfigMap",
		"metadata": map[string]interface{}{"name": name},
		"data":     data,
	}}}
}

func f2Template(phase1, phase2 []corev1alpha1.ObjectSetObject) corev1alpha1.ObjectSetTemplate {
	labels := map[string]string{"app.kubernetes.io/instance": "f2"}
	return corev1alpha1.ObjectSetTemplate{
		Metadata: metav1.ObjectMeta{Labels: labels},
		Spec: corev1alpha1.ObjectSetTemplateSpec{
			AvailabilityProbes: []corev1alpha1.ObjectSetProbe{{
				Selector: corev1alpha1.ProbeSelector{Kind: &corev1alpha1.PackageProbeKindSpec{Group: "apps", Kind: "Deployment"}},
				Probes: []corev1alpha1.Probe{{
					Condition: &corev1alpha1.ProbeConditionSpec{Type: "Available", Status: "True"},
				}},
			}},
			Phases: []corev1alpha1.ObjectSetTemplatePhase{
				{Name: "phase-1", Objects: phase1},
				{Name: "phase-2", Objects: phase2},
			},
		},
	}
}

// ---------------------------------------------------------------------------------------------------------------------
// ground truth + property
// ---------------------------------------------------------------------------------------------------------------------

type f2Tracked struct {
	gvkKind string
	name    string
	uid     types.UID
}

// f2CheckC08 checks the C08 clauses against the ground truth on the "cluster" (owner references), not against .status.
//
//   - "archives a revision only if a newer revision is Available or the revision itself is unavailable and controls
//     nothing that the next newer revision contains"
//   - "An object present in both the outgoing and the incoming revision is adopted in place
//     and is never deleted during the handover."
func (w *f2World) checkC08(step string, shared []f2Tracked) {
	w.t.Helper()

	sets := w.objectSets()
	// sort by revision
	for i := range sets {
		for j := i + 1; j < len(sets); j++ {
			if sets[j].Status.Revision < sets[i].Status.Revision {
				sets[i], sets[j] = sets[j], sets[i]
			}
		}
	}

	for i := range sets {
		rev := &sets[i]
		if rev.Spec.LifecycleState != corev1alpha1.ObjectSetLifecycleStateArchived ||
			meta.IsStatusConditionTrue(rev.Status.Conditions, corev1alpha1.ObjectSetArchived) {
			continue
		}
		// rev is archived (by the ObjectDeployment controller) and not torn down completely.
		newerAvailable := false
		for j := i + 1; j < len(sets); j++ {
			if meta.IsStatusConditionTrue(sets[j].Status.Conditions, corev1alpha1.ObjectSetAvailable) {
				newerAvailable = true
			}
		}
		if newerAvailable || i+1 >= len(sets) {
			continue
		}
		next := &sets[i+1]
		for _, phase := range next.Spec.Phases {
			for _, obj := range phase.Objects {
				actual := obj.Object.DeepCopy()
				actual.SetNamespace(f2Namespace)
				err := w.c.Get(w.ctx, client.ObjectKeyFromObject(actual), actual)
				if apimachineryerrors.IsNotFound(err) {
					continue
				}
				require.NoError(w.t, err)
				if ctrlRef := metav1.GetControllerOf(actual); ctrlRef != nil && ctrlRef.UID == rev.UID {
					assert.Failf(w.t, "C08 violated (archival decision)",
						"%s: revision %d (%s) is archived although no newer revision is Available and it still "+
							"controls %s %s, which the next newer revision %d (%s) contains. "+
							"rev %d .status.controllerOf=%v",
						step, rev.Status.Revision, rev.Name, actual.GetKind(), actual.GetName(),
						next.Status.Revision, next.Name, rev.Status.Revision, rev.Status.ControllerOf)
				}
			}
		}
	}

	for _, s := range shared {
		switch s.gvkKind {
		case "ConfigMap":
			cm, ok := w.configMap(s.name)
			if !ok {
				assert.Failf(w.t, "C08 violated (handover)",
					"%s: ConfigMap %s is part of the outgoing and the incoming revision, but was deleted during the handover",
					step, s.name)
				continue
			}
			assert.Equal(w.t, s.uid, cm.UID,
				"%s: ConfigMap %s is part of both revisions, but was deleted and re-created during the handover", step, s.name)
		default:
			panic("unsupported")
		}
	}
}

// ---------------------------------------------------------------------------------------------------------------------
// scenario
// ---------------------------------------------------------------------------------------------------------------------

// rev1: phase-1 {Deployment operator (image 1)}, phase-2 {ConfigMap shared-config}
// rev2: phase-1 {Deployment operator (image 2)}, phase-2 {ConfigMap shared-config}
//
//  1. rev1 is rolled out completely.
//  2. user updates the template -> rev2. rev2 adopts + updates the Deployment and waits for it in phase-1,
//     "shared-config" (phase-2) is still controlled by rev1.
//  3. user pauses the ObjectDeployment in the middle of that roll-out. Both revisions get paused and confirm it.
//  4. the Deployment finishes its own rolling update. The paused rev2 only looks at the objects in the cache, all of
//     them pass the probes -> rev2 reports Available=True without having adopted "shared-config".
//  5. user resumes the ObjectDeployment. In the very same pass the ObjectDeployment controller reactivates both
//     revisions and then runs the archive reconciler on the status written while they were paused:
//     rev2 "Available" -> rev1 can go; rev1 "Paused=True" -> archive it right away.
//  6. ObjectSet controller: rev1 is archived -> teardown -> rev1 is still controller of "shared-config" -> deleted.
func TestFinding2_ResumeAfterPauseArchivesOnStaleStatus(t *testing.T) {
	t.Parallel()
	f2Run(t, false)
}

// Same, but after the resume the ObjectSet controller gets to rev2 late
// (busy worker, rate limited after a conflict, ...): rev1 and the ObjectDeployment are reconciled twice before.
func TestFinding2_ResumeAfterPauseArchivesOnStaleStatus_Rev2ReconciledLate(t *testing.T) {
	t.Parallel()
	f2Run(t, true)
}

func f2Run(t *testing.T, rev2Late bool) {
	t.Helper()
	w := f2NewWorld(t)
	const odName = "app"
	sharedCfg := f2ConfigMap("shared-config", map[string]interface{}{"key": "value"})

	// --- 1. user creates the ObjectDeployment (template v1), rev1 is rolled out.
	od := &corev1alpha1.ObjectDeployment{
		ObjectMeta: metav1.ObjectMeta{Name: odName, Namespace: f2Namespace},
		Spec: corev1alpha1.ObjectDeploymentSpec{
			Selector: metav1.LabelSelector{MatchLabels: map[string]string{"app.kubernetes.io/instance": "f2"}},
			Template: f2Template(
				[]corev1alpha1.ObjectSetObject{f2Deployment("operator", "operator:1")},
				[]corev1alpha1.ObjectSetObject{sharedCfg}),
		},
	}
	require.NoError(t, w.c.Create(w.ctx, od))
	w.reconcileOD(odName) // event: ObjectDeployment created -> creates ObjectSet rev1
	rev1 := w.newObjectSetName()
	w.reconcileOS(rev1) // event: ObjectSet created
	w.reconcileOD(odName)
	w.deploymentStatus("operator", true) // kube-controller-manager
	w.reconcileOS(rev1)                  // event: owned Deployment changed
	w.reconcileOD(odName)
	require.True(t, meta.IsStatusConditionTrue(w.objectSet(rev1).Status.Conditions, corev1alpha1.ObjectSetAvailable))
	require.Len(t, w.objectSet(rev1).Status.ControllerOf, 2)
	cm, exists := w.configMap("shared-config")
	require.True(t, exists)
	shared := []f2Tracked{{gvkKind: "ConfigMap", name: "shared-config", uid: cm.UID}}
	w.checkC08("1. rev1 rolled out", shared)

	// --- 2. user updates the template: new image, "shared-config" stays.
	require.NoError(t, w.c.Get(w.ctx, client.ObjectKeyFromObject(od), od))
	od.Spec.Template = f2Template(
		[]corev1alpha1.ObjectSetObject{f2Deployment("operator", "operator:2")},
		[]corev1alpha1.ObjectSetObject{sharedCfg})
	require.NoError(t, w.c.Update(w.ctx, od))
	w.reconcileOD(odName) // event: ObjectDeployment changed -> creates ObjectSet rev2
	rev2 := w.newObjectSetName(rev1)
	w.reconcileOS(rev2) // event: ObjectSet created -> adopts and updates Deployment operator, waits for it
	w.reconcileOS(rev1) // event: Deployment operator changed, rev1 is still an owner
	w.reconcileOD(odName)
	require.False(t, meta.IsStatusConditionTrue(w.objectSet(rev2).Status.Conditions, corev1alpha1.ObjectSetAvailable))
	w.deploymentStatus("operator", false) // kube-controller-manager: observed the new spec, new pod is not ready yet
	w.reconcileOS(rev2)
	w.reconcileOS(rev1)
	w.reconcileOD(odName)
	w.checkC08("2. rev2 waits for phase-1", shared)
	cm, _ = w.configMap("shared-config")
	require.Equal(t, w.objectSet(rev1).UID, metav1.GetControllerOf(cm).UID, "shared-config is still controlled by rev1")

	// --- 3. user pauses the ObjectDeployment.
	require.NoError(t, w.c.Get(w.ctx, client.ObjectKeyFromObject(od), od))
	od.Spec.Paused = true
	require.NoError(t, w.c.Update(w.ctx, od))
	w.reconcileOD(odName) // event: ObjectDeployment changed -> pauses both revisions
	w.reconcileOS(rev1)   // event: ObjectSet spec changed
	w.reconcileOS(rev2)   // event: ObjectSet spec changed
	w.reconcileOD(odName) // event: ObjectSet status changed
	require.True(t, meta.IsStatusConditionTrue(w.objectSet(rev1).Status.Conditions, corev1alpha1.ObjectSetPaused))
	require.True(t, meta.IsStatusConditionTrue(w.objectSet(rev2).Status.Conditions, corev1alpha1.ObjectSetPaused))
	w.checkC08("3. paused", shared)

	// --- 4. the Deployment finishes its rolling update while everything is paused.
	w.deploymentStatus("operator", true)
	w.reconcileOS(rev2) // event: owned Deployment changed
	w.reconcileOS(rev1) // event: owned Deployment changed
	w.reconcileOD(odName)
	t.Logf("paused rev1: conditions=%v controllerOf=%v",
		f2Conds(w.objectSet(rev1).Status.Conditions), w.objectSet(rev1).Status.ControllerOf)
	t.Logf("paused rev2: conditions=%v controllerOf=%v",
		f2Conds(w.objectSet(rev2).Status.Conditions), w.objectSet(rev2).Status.ControllerOf)
	cm, _ = w.configMap("shared-config")
	require.Equal(t, w.objectSet(rev1).UID, metav1.GetControllerOf(cm).UID, "shared-config is still controlled by rev1")
	w.checkC08("4. Deployment done while paused", shared)

	// --- 5. user resumes the ObjectDeployment.
	require.NoError(t, w.c.Get(w.ctx, client.ObjectKeyFromObject(od), od))
	od.Spec.Paused = false
	require.NoError(t, w.c.Update(w.ctx, od))
	w.reconcileOD(odName) // event: ObjectDeployment changed
	t.Logf("after resume pass: rev1 lifecycleState=%q, rev2 lifecycleState=%q",
		w.objectSet(rev1).Spec.LifecycleState, w.objectSet(rev2).Spec.LifecycleState)
	w.checkC08("5. resume pass of the ObjectDeployment controller", shared)

	// --- 6. ObjectSet controller works through its queue in the order the ObjectDeployment controller touched
	//        the ObjectSets (rev1 was written first), then everybody follows the events.
	for i := 0; i < 6; i++ {
		w.reconcileOS(rev1)
		w.checkC08(fmt.Sprintf("6. round %d: after ObjectSet controller rev1", i), shared)
		if !rev2Late || i >= 2 {
			w.reconcileOS(rev2)
			w.checkC08(fmt.Sprintf("6. round %d: after ObjectSet controller rev2", i), shared)
		}
		w.reconcileOD(odName)
		w.checkC08(fmt.Sprintf("6. round %d: after ObjectDeployment controller", i), shared)
		if t.Failed() {
			return
		}
	}

	// --- completion: rev2 controls everything, rev1 is archived.
	assert.True(t, meta.IsStatusConditionTrue(w.objectSet(rev2).Status.Conditions, corev1alpha1.ObjectSetAvailable))
	assert.True(t, meta.IsStatusConditionTrue(w.objectSet(rev1).Status.Conditions, corev1alpha1.ObjectSetArchived),
		"rev1 is archived in the end")
	cm, exists = w.configMap("shared-config")
	require.True(t, exists)
	ctrlRef := metav1.GetControllerOf(cm)
	require.NotNil(t, ctrlRef)
	assert.Equal(t, w.objectSet(rev2).UID, ctrlRef.UID, "shared-config is controlled by rev2 in the end")
}

func f2Conds(conds []metav1.Condition) []string {
	var out []string
	for _, c := range conds {
		out = append(out, fmt.Sprintf("%s=%s(gen %d)", c.Type, c.Status, c.ObservedGeneration))
	}
	return out
}
